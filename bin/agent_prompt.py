#!/usr/bin/env python3
"""Prompt for a fresh sub-agent that seeds one property-breaking change (DESIGN 11.6).

usage: bin/agent_prompt.py <TAG> "<constraint text>" [--props C03,C09] [--no-worktree]
writes /tmp/prompt_<TAG>.txt and creates the scratch worktree /tmp/wt_<TAG> (with OUT/).
The agent sees property texts and one-line titles of ideas already used; nothing else from /verif.
"""
import sys, json, glob, os, subprocess

tag = sys.argv[1]
constraint = sys.argv[2]
claimed = ['C01', 'C02', 'C03', 'C04', 'C05', 'C06', 'C07', 'C08', 'C09', 'C10', 'C11', 'C12', 'C13', 'C16', 'C17', 'C18', 'C20']
if '--props' in sys.argv:
    claimed = sys.argv[sys.argv.index('--props') + 1].split(',')
root = os.path.dirname(os.path.dirname(os.path.abspath(__file__)))
props = {}
for l in open(os.path.join(root, 'properties.jsonl')):
    p = json.loads(l)
    props[p['id']] = p
proptext = '\n\n'.join('%s — %s\n%s' % (c, props[c]['title'], props[c]['statement']) for c in claimed)
used = []
for d in sorted(glob.glob(os.path.join(root, 'seeded', 'S-*'))):
    try:
        m = json.load(open(os.path.join(d, 'meta.json')))
    except Exception:
        continue
    s = str(m.get('summary', m.get('description', ''))).replace('\n', ' ')
    used.append('- (%s) %s' % (m.get('property'), s[:200]))
low = tag.lower()
txt = f"""You are helping to evaluate a verification tool by producing one realistic, subtle bug ("seeded change") in a Rust library.

The library is the proc-macro crate `join` (olegnn/join): a combinator DSL (`join!`, `try_join!`, `join_spawn!`, `join_async!`, `join_async_spawn!`, aliases `spawn!`, `try_spawn!`, `async_spawn!`, `try_async_spawn!`, ...) that parses operator chains and generates sync, threaded or async step-wise join code. You have your OWN scratch git worktree of it at /tmp/wt_{tag} (crates `join/` = proc-macro entry points + docs + tests, `join_impl/` = parser and code generator; the code generator is mostly join_impl/src/join/join_output.rs). Work ONLY inside /tmp/wt_{tag}. Never touch /repo or /verif, never read anything under /verif, never commit anything. The sandbox is offline: always pass `--offline` to cargo. Start by reading the top-level README.md / join/src/lib.rs docs and the code you need.

These are the properties the tool is supposed to guard. Pick ANY ONE of them that your change breaks, consistent with the constraint below (say which in meta.json "property"):

{proptext}

CONSTRAINT: {constraint}

IMPORTANT — these ideas were ALREADY USED by earlier seeded changes and must NOT be repeated or trivially varied; find a genuinely different mechanism:
{chr(10).join(used)}

YOUR TASK: make ONE small change to the library source (under join/src or join_impl/src) that BREAKS the property you picked, while
  (a) the workspace still compiles, and
  (b) the existing test suite still passes completely: `cd /tmp/wt_{tag} && cargo test --workspace --no-fail-fast --offline --tests` (80 tests; some sleep a few seconds; the whole run takes ~1 minute after the first build), and
  (c) the breakage needs something SPECIFIC to manifest — e.g. a particular interleaving or completion order, a fault (failure / panic) at a particular position, a multi-step sequence or particular depth profile of branches, an unusual but legal input shape, or two cooperating code sites that each look fine alone. It must NOT be something that ordinary use (e.g. any two-branch one-step macro call) would expose at once. Prefer a change that looks like a plausible refactoring slip or optimisation a maintainer could make.

Then write a DEMONSTRATION: a new integration test file (join/tests/demo_{low}.rs; you may use the dev-dependencies already available to the crate's tests: futures, tokio, futures-timer, rand, rayon, failure) or a small program, that FAILS with your change and PASSES on the unchanged code. Verify both directions yourself (use `git diff > file; git checkout -- <src files>; ...; git apply file` inside your worktree). If the failure depends on thread timing or wake-up order, make the demo force the needed order deterministically (channels, barriers, hand-written futures, a manual poll loop) so that it fails reliably with the change.

DELIVERABLES (all under /tmp/wt_{tag}/OUT/):
  - patch.diff : `git diff` of the library source change ONLY (not the demo), applicable with `git apply` at the worktree root.
  - demo/ : the demonstration file(s) (demo/demo_{low}.rs) plus RUN.md saying exactly where to copy them and which command to run.
  - meta.json : {{"property": "<the id you picked>", "summary": "...what the change does...", "needs_to_manifest": "...the specific input/schedule/fault/sequence needed...", "why_tests_pass": "...", "demo_cmd": "...", "verified": {{"tests_pass_with_change": true/false, "demo_fails_with_change": true/false, "demo_passes_without_change": true/false}}}}

When you finish, leave the worktree with the change REVERTED in the tracked sources (deliverables in OUT/ are untracked files and stay), and remove the worktree's build output (`rm -rf /tmp/wt_{tag}/target`). Reply with a short summary (what you changed, what it needs to manifest, and the three verification results). Do not produce more than one change; quality and subtlety matter more than speed, but do not spend more than about 45 minutes."""
open('/tmp/prompt_%s.txt' % tag, 'w').write(txt)
if '--no-worktree' not in sys.argv:
    subprocess.run('git -C /repo worktree add --detach /tmp/wt_%s HEAD -q; mkdir -p /tmp/wt_%s/OUT' % (tag, tag), shell=True)
print(len(txt))
