"""Sensitivity self-test: deliberate property-breaking edits of /repo (each compiles and passes the
pinned tests) must make the matching quick check fail. Edits are applied to /repo's working tree and
reverted straight afterwards (git checkout).  Usage: bin/verif selftest mutants [name ...] [--with-tests]
"""
import os, sys, subprocess, json, time

ROOT = os.path.dirname(os.path.dirname(os.path.abspath(__file__)))
JO = 'join_impl/src/join/join_output.rs'

MUTANTS = [
    # name, file, old, new, check expected to fail
    ('chain_to_zip', 'join_impl/src/chain/expr/process_expr.rs', 'quote! { .chain(#expr) }', 'quote! { .zip(#expr) }', 'C01'),
    ('find_wrapper_is_find_map', 'join_impl/src/chain/group/action_group.rs',
     'Combinator::Find => ActionExpr::Process(ProcessExpr::Find([return_val])),', 'Combinator::Find => ActionExpr::Process(ProcessExpr::FindMap([return_val])),', 'C02'),
    ('rposition_in_step_check', JO, '.iter().position(|#value_name| !#value_name)', '.iter().rposition(|#value_name| !#value_name)', 'C05'),
    ('spawn_alias_is_try', 'join/src/lib.rs', None, None, 'C07'),
    ('thread_name_format', JO, 'let thread_name = format!("join_{}", branch_index);', 'let thread_name = format!("join-{}", branch_index);', 'C08'),
    ('inspect_calls_twice', JO, '#handler_name(&#value_name);\n                            #value_name', '#handler_name(&#value_name);\n                            #handler_name(&#value_name);\n                            #value_name', 'C10'),
    ('then_operand_not_hoisted', 'join_impl/src/chain/expr/process_expr.rs',
     'Self::Dot(_) | Self::Collect(_) | Self::Unzip(_) | Self::Flatten | Self::Enumerate\n        )\n    }\n}\n\n#[cfg(feature = "full")]',
     'Self::Dot(_) | Self::Collect(_) | Self::Unzip(_) | Self::Flatten | Self::Enumerate | Self::Then(_)\n        )\n    }\n}\n\n#[cfg(feature = "full")]', 'C11'),
    ('transpose_option_ignored', JO, 'transpose: custom_transpose_results.unwrap_or(is_try && !is_async),', 'transpose: { let _ = custom_transpose_results; is_try && !is_async },', 'C16'),
    ('three_options_only', 'join_impl/src/join/parse.rs', 'for _ in 0..4 {', 'for _ in 0..3 {', 'C16'),
    ('global_counter_in_names', 'join_impl/src/join/name_constructors.rs',
     'pub fn construct_var_name(index: impl Into<usize>) -> Ident {\n    format_ident!("__v{}", index.into())\n}',
     'pub fn construct_var_name(index: impl Into<usize>) -> Ident {\n    format_ident!("__v{}", index.into())\n}\nstatic COUNTER: std::sync::atomic::AtomicUsize = std::sync::atomic::AtomicUsize::new(0);', 'C20'),
    ('spawn_threshold_gt2', JO, 'if is_async || !is_spawn || self.active_step_branch_count(step_number) < 2 {', 'if is_async || !is_spawn || self.active_step_branch_count(step_number) < 3 {', 'C08'),
    ('sync_steps_in_labelled_block', JO, "                    let #results_var = { #steps_stream };\n                    #handle_results\n                }}\n            }",
     "                    let #results_var = '__join_steps: { #steps_stream };\n                    #handle_results\n                }}\n            }", 'C11'),
    ('panic_swallowed_in_thread_join', JO, 'Some(quote! { #step_result.join().unwrap() })', 'Some(quote! { #step_result.join().unwrap_or_else(|_| ::std::process::abort()) })', None),
]


def sh(cmd, **kw):
    return subprocess.run(cmd, shell=isinstance(cmd, str), stdout=subprocess.PIPE, stderr=subprocess.STDOUT, text=True, **kw)


def apply(m):
    name, f, old, new, chk = m
    path = os.path.join('/repo', f)
    s = open(path).read()
    if name == 'spawn_alias_is_try':
        i = s.index('pub fn spawn(input: TokenStream)')
        j = s.index('is_try: false', i)
        s = s[:j] + 'is_try: true' + s[j + len('is_try: false'):]
    elif name == 'global_counter_in_names':
        assert old in s
        s = s.replace(old, new)
        s = s.replace('pub fn construct_step_results_name(index: impl Into<usize>) -> Ident {\n    format_ident!("__sr{}", index.into())',
                      'pub fn construct_step_results_name(index: impl Into<usize>) -> Ident {\n    let n = COUNTER.fetch_add(1, std::sync::atomic::Ordering::SeqCst);\n    format_ident!("__sr{}_{}", index.into(), n)')
    else:
        assert old in s, 'pattern of mutant %s not found' % name
        s = s.replace(old, new, 1)
    open(path, 'w').write(s)


def main(args):
    with_tests = '--with-tests' in args
    names = [a for a in args if not a.startswith('--')]
    st = sh('git -C /repo status --porcelain')
    if st.stdout.strip():
        print('/repo has uncommitted changes; refusing')
        return 2
    results = []
    for m in MUTANTS:
        name, f, old, new, chk = m
        if names and name not in names:
            continue
        if chk is None:
            continue
        t0 = time.time()
        try:
            apply(m)
            tests = None
            if with_tests:
                r = sh('cd /repo && cargo test --workspace --no-fail-fast --offline --tests 2>&1 | grep -E "^test result" ')
                tests = all('0 failed' in l for l in r.stdout.splitlines()) and r.stdout.count('test result') >= 5
            r = sh([os.path.join(ROOT, 'bin', 'verif'), 'check', chk], cwd=ROOT)
            viol = [l for l in r.stdout.splitlines() if l.startswith('VIOLATION')]
            codes = [l.strip().split(':')[0] for l in r.stdout.splitlines() if l.startswith('  C')]
            results.append((name, chk, r.returncode, codes[:3], tests, time.time() - t0))
            print('%-32s %s exit=%d %s tests_pass=%s %.0fs' % (name, chk, r.returncode, codes[:3], tests, time.time() - t0), flush=True)
        finally:
            sh('git -C /repo checkout -- .')
    missed = [r for r in results if r[2] != 1]
    print('mutants: %d run, %d detected, %d missed' % (len(results), len(results) - len(missed), len(missed)))
    sh('rm -f %s/replays/*.json' % ROOT)
    return 1 if missed else 0
