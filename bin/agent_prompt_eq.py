#!/usr/bin/env python3
"""Prompt for a fresh sub-agent that writes a property-PRESERVING refactoring (DESIGN 11.5, /verif/equiv).

usage: bin/agent_prompt_eq.py <TAG> "<focus text>"
writes /tmp/prompt_<TAG>.txt and creates the scratch worktree /tmp/wt_<TAG> (with OUT/).
"""
import sys, json, os, subprocess

tag = sys.argv[1]
focus = sys.argv[2]
root = os.path.dirname(os.path.dirname(os.path.abspath(__file__)))
claimed = ['C01', 'C02', 'C03', 'C04', 'C05', 'C06', 'C07', 'C08', 'C09', 'C10', 'C11', 'C12', 'C13', 'C16', 'C17', 'C18', 'C20']
props = {}
for l in open(os.path.join(root, 'properties.jsonl')):
    p = json.loads(l)
    props[p['id']] = p
proptext = '\n\n'.join('%s — %s\n%s' % (c, props[c]['title'], props[c]['statement']) for c in claimed)
txt = f"""You are helping to evaluate a verification tool: it must NOT raise an alarm on code where the properties still hold. Your job is to produce one substantial, realistic REFACTORING of a Rust library that changes the code it generates but preserves every property below.

The library is the proc-macro crate `join` (olegnn/join): a combinator DSL (`join!`, `try_join!`, `join_spawn!`, `join_async!`, `join_async_spawn!`, aliases `spawn!`, `try_spawn!`, `async_spawn!`, `try_async_spawn!`, ...) that parses operator chains and generates sync, threaded or async step-wise join code. You have your OWN scratch git worktree of it at /tmp/wt_{tag} (crates `join/` = proc-macro entry points + docs + tests, `join_impl/` = parser and code generator; the code generator is mostly join_impl/src/join/join_output.rs). Work ONLY inside /tmp/wt_{tag}. Never touch /repo or /verif, never read anything under /verif, never commit anything. The sandbox is offline: always pass `--offline` to cargo. Start by reading README.md / join/src/lib.rs docs and the code you need.

These are the properties that must ALL still hold after your refactoring:

{proptext}

FOCUS of the refactoring: {focus}

REQUIREMENTS
  (a) the refactoring must change the GENERATED code (or the parser's internal structure) in a way a maintainer might plausibly do — restructuring, renaming internals, different but equivalent control flow, different helper functions, performance-motivated changes — not a cosmetic no-op; aim for 60-300 changed lines;
  (b) every property above must still hold for ALL inputs, schedules, wake-up orders, failures and panics (think hard about panics reaching the caller without waiting for siblings, wake-ups, laziness of async macros, exactly-once evaluation, thread names, hoisting order of block captures, `let` names, nested macros). Only use in the generated code: std::thread::Builder / spawn / scope / JoinHandle / current, tokio::spawn / tokio::task::spawn / JoinHandle / JoinError, and items of the futures crate reached through the configured futures crate path;
  (c) the workspace compiles and the existing test suite passes: `cd /tmp/wt_{tag} && cargo test --workspace --no-fail-fast --offline --tests` (80 tests, ~1 minute after the first build);
  (d) write a few extra tests of your own (join/tests/demo_{tag.lower()}.rs) that exercise the refactored paths and pass both before and after.

DELIVERABLES (all under /tmp/wt_{tag}/OUT/):
  - patch.diff : `git diff` of the library source change ONLY, applicable with `git apply` at the worktree root.
  - demo/demo_{tag.lower()}.rs : your extra tests.
  - meta.json : {{"summary": "...what was refactored...", "why_properties_hold": {{"C01": "...", ...one entry per property your change touches...}}, "properties_touched": ["C03", ...], "verified": {{"tests_pass_with_change": true/false, "extra_tests_pass_before_and_after": true/false}}}}

When you finish, leave the worktree with the change REVERTED in the tracked sources (deliverables in OUT/ stay) and remove the build output (`rm -rf /tmp/wt_{tag}/target`). Reply with a short summary. Do not spend more than about 45 minutes."""
open('/tmp/prompt_%s.txt' % tag, 'w').write(txt)
subprocess.run('git -C /repo worktree add --detach /tmp/wt_%s HEAD -q; mkdir -p /tmp/wt_%s/OUT' % (tag, tag), shell=True)
print(len(txt))
