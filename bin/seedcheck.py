#!/usr/bin/env python3
"""Confirm a seeded change and run the checks against it.

  bin/seedcheck.py confirm <id> <out_dir> --copy SRC:DST [--copy ...] --demo-cmd "<cmd>"
        in a fresh scratch worktree of /repo under /tmp: the demonstration must pass without the
        patch; with the patch the pinned tests must pass and the demonstration must fail.
        On success the change is stored as /verif/seeded/<id>/ (patch.diff, demo/, meta.json).
  bin/seedcheck.py run <id> [Cxx ...] [--tier quick|thorough] [--isolated]
        applies /verif/seeded/<id>/patch.diff to /repo, runs the given checks (default: the
        property's own check), reverts /repo, records the outcome in meta.json.
        --isolated: /repo itself is left alone (needed while a `vp run` soak is using it): the
        checks run in a private mount namespace in which a patched scratch copy of /repo is
        bind-mounted over /repo, so every path the checks use is unchanged.
  bin/seedcheck.py equiv <id> Cxx [Cxx ...] [--tier quick|thorough]
        /verif/equiv/<id>/patch.diff is a property-PRESERVING refactoring of /repo: the given
        checks are run against it (isolated, as above) and must all exit 0 (no false alarm).
"""
import os, sys, json, subprocess, shutil, time

ROOT = os.path.dirname(os.path.dirname(os.path.abspath(__file__)))
# checks run against a patched tree write their evidence to a scratch directory, never to /verif/evidence
os.environ['VERIF_EVIDENCE_DIR'] = os.path.join(ROOT, 'work', 'evidence_of_patched_trees')


def sh(cmd, cwd=None, timeout=None):
    p = subprocess.run(cmd, shell=True, cwd=cwd, stdout=subprocess.PIPE, stderr=subprocess.STDOUT, text=True, timeout=timeout)
    return p.returncode, p.stdout


def tests_pass(wt):
    rc, out = sh('cargo test --workspace --no-fail-fast --offline --tests 2>&1 | grep -E "^test result|panicked|FAILED"', cwd=wt)
    results = [l for l in out.splitlines() if l.startswith('test result')]
    ok = len(results) >= 6 and all(' 0 failed' in l for l in results)
    passed = sum(int(l.split(' passed')[0].split()[-1]) for l in results)
    return ok and passed >= 80, passed, out[-1500:]


def confirm(args):
    sid, out = args[0], args[1]
    copies = [args[i + 1] for i, a in enumerate(args) if a == '--copy']
    demo_cmd = args[args.index('--demo-cmd') + 1]
    wt = '/tmp/sc_%s' % sid
    sh('git -C /repo worktree remove --force %s' % wt)
    rc, o = sh('git -C /repo worktree add --detach %s HEAD' % wt)
    assert rc == 0, o
    res = {}
    try:
        for c in copies:
            src, dst = c.split(':')
            d = os.path.join(wt, dst)
            os.makedirs(os.path.dirname(d), exist_ok=True)
            shutil.copy(os.path.join(out, src), d)
        rc, o = sh(demo_cmd, cwd=wt, timeout=1800)
        res['demo_passes_without_change'] = (rc == 0)
        res['demo_without_tail'] = o[-600:]
        rc, o = sh('git apply %s' % os.path.join(out, 'patch.diff'), cwd=wt)
        assert rc == 0, 'patch does not apply: ' + o
        # the pinned suite is run without the demonstration files
        for c in copies:
            os.remove(os.path.join(wt, c.split(':')[1]))
        ok, n, tail = tests_pass(wt)
        for c in copies:
            src, dst = c.split(':')
            shutil.copy(os.path.join(out, src), os.path.join(wt, dst))
        res['tests_pass_with_change'] = ok
        res['tests_passed_count'] = n
        if not ok:
            res['tests_tail'] = tail
        rc, o = sh(demo_cmd, cwd=wt, timeout=1800)
        res['demo_fails_with_change'] = (rc != 0)
        res['demo_with_tail'] = o[-800:]
    finally:
        sh('git -C /repo worktree remove --force %s' % wt)
        shutil.rmtree(wt, ignore_errors=True)
    good = res.get('demo_passes_without_change') and res.get('tests_pass_with_change') and res.get('demo_fails_with_change')
    print(json.dumps({k: v for k, v in res.items() if not k.endswith('_tail')}, indent=1))
    if not good:
        print('NOT CONFIRMED')
        for k in res:
            if k.endswith('_tail'):
                print('---', k)
                print(res[k])
        return 1
    dst = os.path.join(ROOT, 'seeded', sid)
    os.makedirs(os.path.join(dst, 'demo'), exist_ok=True)
    shutil.copy(os.path.join(out, 'patch.diff'), os.path.join(dst, 'patch.diff'))
    if os.path.isdir(os.path.join(out, 'demo')):
        for f in os.listdir(os.path.join(out, 'demo')):
            if os.path.isfile(os.path.join(out, 'demo', f)):
                shutil.copy(os.path.join(out, 'demo', f), os.path.join(dst, 'demo', f))
    meta = {}
    if os.path.exists(os.path.join(out, 'meta.json')):
        try:
            meta = json.load(open(os.path.join(out, 'meta.json')))
        except Exception:
            meta = {'agent_meta_unparsable': True}
    meta['confirmed_by_me'] = {k: v for k, v in res.items() if not k.endswith('_tail')}
    meta['confirm_cmds'] = {'copies': copies, 'demo_cmd': demo_cmd, 'tests_cmd': 'cargo test --workspace --no-fail-fast --offline --tests'}
    meta.setdefault('checks', {})
    json.dump(meta, open(os.path.join(dst, 'meta.json'), 'w'), indent=1)
    print('CONFIRMED -> %s' % dst)
    return 0


def run(args):
    sid = args[0]
    tier = 'quick'
    if '--tier' in args:
        tier = args[args.index('--tier') + 1]
    d = os.path.join(ROOT, 'seeded', sid)
    meta = json.load(open(os.path.join(d, 'meta.json')))
    checks = [a for a in args[1:] if a.startswith('C')] or [meta.get('property')]
    if '--isolated' in args:
        return run_isolated(sid, d, meta, checks, tier)
    rc, o = sh('git -C /repo status --porcelain')
    if o.strip():
        print('/repo not clean; refusing')
        return 2
    rc, o = sh('git -C /repo apply %s' % os.path.join(d, 'patch.diff'))
    assert rc == 0, o
    out = {}
    try:
        for c in checks:
            t0 = time.time()
            rc, o = sh('%s check %s --tier %s' % (os.path.join(ROOT, 'bin', 'verif'), c, tier), cwd=ROOT)
            codes = sorted(set(l.strip().split(':')[0].split(' ')[0] for l in o.splitlines() if l.startswith('  C')))
            out[c] = {'tier': tier, 'exit': rc, 'codes': codes, 'wall_s': round(time.time() - t0, 1)}
            print('%s %s exit=%d %s %.0fs' % (sid, c, rc, codes, time.time() - t0), flush=True)
            if rc == 2:
                print(o[-1500:])
    finally:
        sh('git -C /repo checkout -- .')
        sh('rm -f %s/replays/*.json' % ROOT)
    meta.setdefault('checks', {}).update(out)
    json.dump(meta, open(os.path.join(d, 'meta.json'), 'w'), indent=1)
    return 0


def equiv(args):
    sid = args[0]
    tier = args[args.index('--tier') + 1] if '--tier' in args else 'quick'
    d = os.path.join(ROOT, 'equiv', sid)
    meta = json.load(open(os.path.join(d, 'meta.json')))
    checks = [a for a in args[1:] if a.startswith('C')]
    if '--tests' in args:
        scr = '/tmp/scrt_%s' % sid
        shutil.rmtree(scr, ignore_errors=True)
        rc, o = sh('rsync -a --exclude target /repo/ %s/ && git -C %s checkout -q -- . && git -C %s apply %s' % (scr, scr, scr, os.path.join(d, 'patch.diff')))
        assert rc == 0, o
        ok, n, tail = tests_pass(scr)
        shutil.rmtree(scr, ignore_errors=True)
        meta['pinned_tests_pass'] = ok
        print('%s pinned tests: %s (%d passed)' % (sid, ok, n), flush=True)
        if not ok:
            print(tail)
            return 1
    exp = [c for c in meta.get('expected_alarm', []) if c not in checks]
    run_isolated(sid, d, meta, checks + exp, tier)
    meta = json.load(open(os.path.join(d, 'meta.json')))
    bad = [c for c in checks if meta['checks'][c]['exit'] != 0]
    quiet = [c for c in exp if meta['checks'][c]['exit'] != 1]
    if bad:
        print('FALSE ALARM on %s: %s' % (sid, bad))
    if quiet:
        print('EXPECTED ALARM MISSING on %s: %s' % (sid, quiet))
    return 1 if (bad or quiet) else 0


def run_isolated(sid, d, meta, checks, tier):
    scr = '/tmp/scr_%s' % sid
    shutil.rmtree(scr, ignore_errors=True)
    rc, o = sh('rsync -a --exclude target /repo/ %s/ && git -C %s checkout -q -- . && git -C %s apply %s' % (scr, scr, scr, os.path.join(d, 'patch.diff')))
    assert rc == 0, o
    out = {}
    try:
        for c in checks:
            t0 = time.time()
            inner = 'mount --bind %s /repo && cd %s && bin/verif check %s --tier %s' % (scr, ROOT, c, tier)
            rc, o = sh("unshare -m bash -c '%s'" % inner, cwd=ROOT)
            codes = sorted(set(l.strip().split(':')[0].split(' ')[0] for l in o.splitlines() if l.startswith('  C')))
            out[c] = {'tier': tier, 'exit': rc, 'codes': codes, 'wall_s': round(time.time() - t0, 1), 'isolated': True}
            print('%s %s exit=%d %s %.0fs' % (sid, c, rc, codes, time.time() - t0), flush=True)
            if rc == 2 or (rc != 0 and '/equiv/' in d and c not in meta.get('expected_alarm', [])):
                print('\n'.join(l[:400] for l in o.splitlines() if l.startswith('  C') or 'VIOLATION' in l or 'HARNESS' in l or 'error' in l)[-3000:])
    finally:
        shutil.rmtree(scr, ignore_errors=True)
        if '--keep' not in sys.argv:
            sh('rm -f %s/replays/*.json' % ROOT)
    meta.setdefault('checks', {}).update(out)
    json.dump(meta, open(os.path.join(d, 'meta.json'), 'w'), indent=1)
    return 0


if __name__ == '__main__':
    a = sys.argv[1:]
    if len(a) >= 2 and a[0] == 'confirm':
        sys.exit(confirm(a[1:]))
    if len(a) >= 2 and a[0] == 'run':
        sys.exit(run(a[1:]))
    if len(a) >= 2 and a[0] == 'equiv':
        sys.exit(equiv(a[1:]))
    print(__doc__)
    sys.exit(2)
