#!/usr/bin/env python3
"""regenerate /verif/seeded/README.md from the meta.json files"""
import os, json
ROOT = os.path.dirname(os.path.dirname(os.path.abspath(__file__)))
d = os.path.join(ROOT, 'seeded')
rows = []
for sid in sorted(os.listdir(d)):
    mp = os.path.join(d, sid, 'meta.json')
    if not os.path.exists(mp):
        continue
    m = json.load(open(mp))
    checks = m.get('checks', {})
    caught = ['%s %s: %s' % (c, v.get('tier', 'quick'), ', '.join(v['codes']) or '(exit %d)' % v['exit']) for c, v in sorted(checks.items()) if v.get('exit') == 1]
    missed = ['%s %s' % (c, v.get('tier', 'quick')) for c, v in sorted(checks.items()) if v.get('exit') == 0]
    rows.append((sid, m.get('property', '?'), (m.get('summary') or '').replace('\n', ' ').replace('|', '\\|')[:260],
                 (m.get('needs_to_manifest') or '').replace('\n', ' ').replace('|', '\\|')[:260], '; '.join(caught) or '—', '; '.join(missed) or '—',
                 m.get('origin', 'sub-agent')))
out = ['# Seeded changes', '',
       'Property-breaking changes to olegnn/join that compile and pass the 80 pinned tests. Each directory holds `patch.diff`, the',
       'demonstration that fails with the change and passes without it (`demo/`), and `meta.json` (what the change needs in order to',
       'manifest, what was run to confirm it in a scratch worktree, and the outcome of the checks run against it with',
       '`bin/seedcheck.py run <id> Cxx`). None of these changes is ever committed to /repo.', '',
       '| id | property | change | needs to manifest | caught by (violation codes) | run but not caught | origin |', '|---|---|---|---|---|---|---|']
for r in rows:
    out.append('| %s |' % ' | '.join(r))
open(os.path.join(d, 'README.md'), 'w').write('\n'.join(out) + '\n')
print('\n'.join(out[-len(rows):]))
