"""Self-tests of the machinery (not registered as checks).

  bin/verif selftest determinism [--seeds N]   every corpus binary is run twice per seed, in
        separate processes, once 16 at a time and once 3 at a time; the order-sensitive digests
        over all runs (program, kind, plan, schedule, complete event log, outcome) must agree.
"""
import os, sys, json, subprocess, time
from concurrent.futures import ThreadPoolExecutor

ROOT = os.path.dirname(os.path.dirname(os.path.abspath(__file__)))
TARGET = os.path.join(ROOT, 'sim', 'target', 'debug')
ENV = dict(os.environ, RUST_BACKTRACE='0')


def run_bin(b, check, seed):
    p = subprocess.run([os.path.join(TARGET, b), 'run', '--check', check, '--tier', 'quick', '--seed', str(seed), '--max-fail', '1000000'],
                       env=ENV, stdout=subprocess.PIPE, stderr=subprocess.PIPE, text=True)
    dig, runs = None, 0
    for line in p.stdout.splitlines():
        try:
            j = json.loads(line)
        except Exception:
            continue
        if j.get('type') == 'stats':
            dig, runs = j['digest'], j['runs']
    return dig, runs


def determinism(args):
    nseeds = 3
    if '--seeds' in args:
        nseeds = int(args[args.index('--seeds') + 1])
    bins = sorted(f for f in os.listdir(TARGET) if os.path.isfile(os.path.join(TARGET, f)) and os.access(os.path.join(TARGET, f), os.X_OK)
                  and '.' not in f and '-' not in f and not f.startswith('t_') and f not in ('expsim',) and '_' in f)
    if not bins:
        print('no corpus binaries built; run bin/verif setup first')
        return 2
    checks = ['C03', 'C05', 'C09', 'C18', 'C10c', 'C08']
    jobs = [(b, c, s) for b in bins for ci, c in enumerate(checks) for s in range(1, nseeds + 1)]
    t0 = time.time()
    res = {}
    for workers in (16, 3):
        with ThreadPoolExecutor(max_workers=workers) as ex:
            for job, r in zip(jobs, ex.map(lambda j: run_bin(*j), jobs)):
                res.setdefault(job, []).append(r)
    bad = [(j, r) for j, r in res.items() if len(set(r)) != 1 or r[0][0] is None]
    total = sum(r[0][1] for r in res.values())
    print('determinism: %d (binary, check, seed) jobs, %d simulated runs each executed twice in separate processes (16 and 3 at a time), %d mismatches, %.0fs'
          % (len(jobs), total, len(bad), time.time() - t0))
    for j, r in bad[:10]:
        print('  MISMATCH', j, r)
    return 1 if bad else 0


def main(args):
    if args and args[0] == 'determinism':
        return determinism(args[1:])
    if args and args[0] == 'mutants':
        import mutants
        return mutants.main(args[1:])
    print(__doc__)
    return 2
