"""Self-tests of the machinery (not registered as checks).

  bin/verif selftest determinism [--seeds N]   every corpus binary is run twice per seed, in
        separate processes, once 16 at a time and once 3 at a time; the order-sensitive digests
        over all runs (program, kind, plan, schedule, complete event log, outcome) must agree.
"""
import os, sys, json, subprocess, time
from concurrent.futures import ThreadPoolExecutor

ROOT = os.path.dirname(os.path.dirname(os.path.abspath(__file__)))
TARGET = os.path.join(ROOT, 'sim', 'target', 'debug')
ENV = dict(os.environ, RUST_BACKTRACE='0')


def run_bin(b, check, seed):
    p = subprocess.run([os.path.join(TARGET, b), 'run', '--check', check, '--tier', 'quick', '--seed', str(seed), '--max-fail', '1000000'],
                       env=ENV, stdout=subprocess.PIPE, stderr=subprocess.PIPE, text=True)
    dig, runs = None, 0
    for line in p.stdout.splitlines():
        try:
            j = json.loads(line)
        except Exception:
            continue
        if j.get('type') == 'stats':
            dig, runs = j['digest'], j['runs']
    return dig, runs


def determinism(args):
    nseeds = 3
    if '--seeds' in args:
        nseeds = int(args[args.index('--seeds') + 1])
    bins = sorted(f for f in os.listdir(TARGET) if os.path.isfile(os.path.join(TARGET, f)) and os.access(os.path.join(TARGET, f), os.X_OK)
                  and '.' not in f and '-' not in f and not f.startswith('t_') and f not in ('expsim',) and '_' in f)
    if not bins:
        print('no corpus binaries built; run bin/verif setup first')
        return 2
    checks = ['C03', 'C05', 'C09', 'C18', 'C10c', 'C08']
    jobs = [(b, c, s) for b in bins for ci, c in enumerate(checks) for s in range(1, nseeds + 1)]
    t0 = time.time()
    res = {}
    for workers in (16, 3):
        with ThreadPoolExecutor(max_workers=workers) as ex:
            for job, r in zip(jobs, ex.map(lambda j: run_bin(*j), jobs)):
                res.setdefault(job, []).append(r)
    bad = [(j, r) for j, r in res.items() if len(set(r)) != 1 or r[0][0] is None]
    total = sum(r[0][1] for r in res.values())
    print('determinism: %d (binary, check, seed) jobs, %d simulated runs each executed twice in separate processes (16 and 3 at a time), %d mismatches, %.0fs'
          % (len(jobs), total, len(bad), time.time() - t0))
    for j, r in bad[:10]:
        print('  MISMATCH', j, r)
    return 1 if bad else 0


def fidelity(args):
    """compile a sample of the quick corpus against the UNWRAPPED /repo/join, real std threads and real tokio"""
    sys.path.insert(0, os.path.join(ROOT, 'gen'))
    import corpus as corpus_mod, simgen
    fid = os.path.join(ROOT, 'fid')
    bindir = os.path.join(fid, 'fcorpus', 'src', 'bin')
    os.makedirs(bindir, exist_ok=True)
    for f in os.listdir(bindir):
        os.remove(os.path.join(bindir, f))
    seed = int(os.environ.get('VERIF_SEED', '1'))
    bins = []
    for sl in ['steps', 'try', 'handler', 'nest', 'ops', 'wrap', 'pos']:
        ps = corpus_mod.build_slice(sl, 'quick', seed)
        for ci, ch in enumerate(corpus_mod.chunks(ps, corpus_mod.CHUNK.get(sl, 10))):
            name = 'f_%s_%03d' % (sl, ci)
            src = simgen.emit_chunk(ch).replace('fn main() { simrt::harness::main_entry(PROGS) }', 'fn main() { fidrt::main_entry(PROGS) }')
            open(os.path.join(bindir, name + '.rs'), 'w').write(src)
            bins.append(name)
    t0 = time.time()
    # content-based rebuild trigger for the crates built from /repo (see sync_repo_build in bin/verif)
    import importlib.machinery, importlib.util
    _l = importlib.machinery.SourceFileLoader('verif_driver', os.path.join(ROOT, 'bin', 'verif'))
    _spec = importlib.util.spec_from_loader('verif_driver', _l)
    _m = importlib.util.module_from_spec(_spec)
    _l.exec_module(_m)
    _m.sync_repo_build(fid)
    # the simulated side of the thread-name comparison: (re)build the sim corpus binaries of the same slices from the same
    # generator state (they may be stale or built for another seed)
    sl_all = ['steps', 'try', 'handler', 'nest', 'ops', 'wrap', 'pos']
    index, _progs = _m.generate('quick', seed, sl_all)
    failures, herr = _m.build_with_stubs('quick', seed, sl_all, index)
    if herr or failures:
        print('fidelity: the simulated corpus does not build: %s %s' % (herr, list(failures)[:3]))
        return 2
    p = subprocess.run(['cargo', 'build', '--offline', '-p', 'fcorpus', '--bins'], cwd=fid, env=dict(ENV, CARGO_NET_OFFLINE='true'),
                       stdout=subprocess.PIPE, stderr=subprocess.PIPE, text=True)
    if p.returncode != 0:
        print('fidelity build failed:\n' + p.stderr[-3000:])
        return 2
    print('fidelity: built %d bins against the unwrapped /repo/join + real tokio in %.0fs' % (len(bins), time.time() - t0))

    def one(b):
        q = subprocess.run([os.path.join(fid, 'target', 'debug', b)], env=ENV, stdout=subprocess.PIPE, stderr=subprocess.PIPE, text=True)
        return b, q.returncode, [json.loads(l) for l in q.stdout.splitlines() if l.startswith('{')]
    # simulated side: the same programs in the sim corpus binaries
    def sim_names(b):
        sb = b[2:]
        q = subprocess.run([os.path.join(TARGET, sb), 'names'], env=ENV, stdout=subprocess.PIPE, stderr=subprocess.PIPE, text=True)
        return [json.loads(l) for l in q.stdout.splitlines() if l.startswith('{')]
    simn = {}
    with ThreadPoolExecutor(max_workers=8) as ex:
        for outs in ex.map(sim_names, bins):
            for j in outs:
                simn[(j['program'], j['kind'], j['pi'])] = j
    runs = mism = names = 0
    shown = 0
    with ThreadPoolExecutor(max_workers=8) as ex:
        for b, rc, outs in ex.map(one, bins):
            for j in outs:
                if j['type'] == 'names':
                    sj = simn.get((j['program'], j['kind'], j['pi']))
                    if sj is None or sj['names'] != j['names'] or sj['outcome'] != j['outcome']:
                        mism += 1
                        if shown < 10:
                            shown += 1
                            print('  NAME MISMATCH', b, json.dumps(j)[:300], json.dumps(sj)[:300])
                    continue
                if j['type'] == 'fidelity_stats':
                    runs += j['runs']
                    mism += j['mismatches']
                    names += j['thread_name_comparisons']
                elif shown < 10:
                    shown += 1
                    print('  MISMATCH', b, json.dumps(j)[:600])
            if rc not in (0, 3):
                print('  %s exited with %d' % (b, rc))
                mism += 1
    print('fidelity: %d real executions (real std threads / real tokio current-thread and multi-thread runtimes), %d thread-name comparisons with simulated runs, %d mismatches'
          % (runs, names, mism))
    return 1 if mism else 0


def main(args):
    if args and args[0] == 'fidelity':
        return fidelity(args[1:])
    if args and args[0] == 'determinism':
        return determinism(args[1:])
    if args and args[0] == 'mutants':
        import mutants
        return mutants.main(args[1:])
    print(__doc__)
    return 2
