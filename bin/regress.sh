#!/bin/bash
# full regression: all quick checks on the unchanged tree (must be clean), then every seeded change against the check of its property
# (must be caught), then every property-preserving refactoring in equiv/ against the checks of the properties it touches (must be quiet)
cd "$(dirname "$0")/.."
rm -f replays/*.json
fail=0
ISO=""; for a in "$@"; do [ "$a" = "--isolated" ] && ISO="--isolated"; done
for c in C01 C02 C03 C04 C05 C06 C07 C08 C09 C10 C11 C12 C13 C16 C17 C18 C20; do
  out=$(bin/verif check $c 2>&1); rc=$?
  echo "$out" | grep -E "^\[C..\] (runs|hist)" | cut -c1-200
  if [ $rc -ne 0 ]; then echo "CLEAN-TREE ALARM $c rc=$rc"; echo "$out" | grep -E "VIOLATION|HARNESS|^  C" | cut -c1-400; fail=1; fi
done
if [ "$1" != "--no-seeded" ] && [ "$2" != "--no-seeded" ]; then
for d in seeded/S-*; do
  sid=$(basename $d); p=$(python3 -c "import json;print(json.load(open('$d/meta.json'))['property'])")
  # a change kept as a RECORDED GAP (delivered too late to extend the machinery; DESIGN 11.6) is run but does not fail the regression
  gap=$(python3 -c "import json;print(1 if json.load(open('$d/meta.json')).get('recorded_gap') else 0)")
  r=$(bin/seedcheck.py run $sid $p $ISO 2>&1 | grep -v "^ " | tail -1)
  echo "$r" | cut -c1-160
  case "$r" in *"exit=1"*) ;; *) if [ "$gap" = "1" ]; then echo "RECORDED-GAP $sid"; else echo "MISSED $sid"; fail=1; fi;; esac
done
# property-preserving refactorings: no check may alarm (run isolated: /repo itself is untouched)
for d in equiv/E-*; do
  eid=$(basename $d); ps=$(python3 -c "import json;print(' '.join(json.load(open('$d/meta.json'))['properties_touched']))")
  out=$(bin/seedcheck.py equiv $eid $ps 2>&1); rc=$?
  echo "$out" | grep -E "^E-" | cut -c1-160
  if [ $rc -ne 0 ]; then echo "FALSE-ALARM $eid"; echo "$out" | grep -vE "^E-" | cut -c1-400 | head -20; fail=1; fi
done
fi
git -C /repo status --short | head -3
exit $fail
