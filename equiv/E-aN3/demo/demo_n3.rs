//!
//! Extra tests for the thread-spawning code paths (`join_spawn!`, `try_join_spawn!`, `spawn!`, `try_spawn!`).
//!
#[cfg(test)]
mod demo_n3 {
    use join::{join, join_spawn, spawn, try_join, try_join_spawn, try_spawn};
    use std::panic::{catch_unwind, AssertUnwindSafe};
    use std::sync::atomic::{AtomicBool, AtomicUsize, Ordering};
    use std::sync::{Arc, Mutex};
    use std::thread;
    use std::time::{Duration, Instant};

    fn current_name() -> Option<String> {
        thread::current().name().map(ToOwned::to_owned)
    }

    /// Spins until `counter` reaches `target` (proves that siblings are alive at the same time).
    fn rendezvous(counter: &AtomicUsize, target: usize) {
        counter.fetch_add(1, Ordering::SeqCst);
        let started = Instant::now();
        while counter.load(Ordering::SeqCst) < target {
            assert!(
                started.elapsed() < Duration::from_secs(20),
                "siblings are not running concurrently"
            );
            thread::yield_now();
        }
    }

    #[test]
    fn names_of_threads_for_named_caller() {
        let names = thread::Builder::new()
            .name("caller".into())
            .spawn(|| {
                join_spawn! {
                    0u8 -> |_| current_name(),
                    1u8 -> |_| current_name(),
                    2u8 -> |_| current_name() ~-> |v| (v, current_name()),
                    3u8 -> |_| current_name() ~-> |v| (v, current_name()),
                }
            })
            .unwrap()
            .join()
            .unwrap();

        assert_eq!(names.0, Some("caller_join_0".to_owned()));
        assert_eq!(names.1, Some("caller_join_1".to_owned()));
        assert_eq!(
            names.2,
            (
                Some("caller_join_2".to_owned()),
                Some("caller_join_2".to_owned())
            )
        );
        assert_eq!(
            names.3,
            (
                Some("caller_join_3".to_owned()),
                Some("caller_join_3".to_owned())
            )
        );
    }

    #[test]
    fn names_of_threads_for_unnamed_caller() {
        let names = thread::spawn(|| {
            assert_eq!(current_name(), None);
            try_spawn! {
                Some(0u8) |> |_| current_name(),
                Some(1u8) |> |_| current_name(),
            }
        })
        .join()
        .unwrap();

        assert_eq!(
            names,
            Some((Some("join_0".to_owned()), Some("join_1".to_owned())))
        );
    }

    #[test]
    fn two_digit_branch_indices_and_sparse_steps() {
        let names = thread::Builder::new()
            .name("p".into())
            .spawn(|| {
                spawn! {
                    0usize, 1usize, 2usize, 3usize, 4usize, 5usize, 6usize, 7usize, 8usize, 9usize,
                    10usize -> |v| (v, current_name()) ~-> |v| (v, current_name()),
                    11usize,
                    12usize -> |v| (v, current_name()) ~-> |v| (v, current_name()),
                }
            })
            .unwrap()
            .join()
            .unwrap();

        assert_eq!(names.9, 9);
        assert_eq!(names.11, 11);
        assert_eq!(
            names.10,
            (
                (10, Some("p_join_10".to_owned())),
                Some("p_join_10".to_owned())
            )
        );
        assert_eq!(
            names.12,
            (
                (12, Some("p_join_12".to_owned())),
                Some("p_join_12".to_owned())
            )
        );
    }

    #[test]
    fn single_active_branch_runs_on_calling_thread() {
        let caller = thread::current().id();
        let (a, b) = join_spawn! {
            1 -> |v| (v, thread::current().id()) ~-> |(v, id)| (v + 1, id, thread::current().id()),
            2 -> |v| (v, thread::current().id()),
        };
        // Step 0 has two active branches: both on fresh threads.
        assert_ne!(a.1, caller);
        assert_ne!(b.1, caller);
        assert_ne!(a.1, b.1);
        // Step 1 has a single active branch: calling thread.
        assert_eq!(a.2, caller);
        assert_eq!(a.0, 2);
        assert_eq!(b.0, 2);

        let single = join_spawn! { 5 -> |v| (v, thread::current().id()) };
        assert_eq!(single, (5, caller));
    }

    #[test]
    fn all_branches_of_a_step_are_alive_at_the_same_time() {
        let counter = Arc::new(AtomicUsize::new(0));
        let (c0, c1, c2) = (counter.clone(), counter.clone(), counter.clone());
        let ids = join_spawn! {
            0 -> move |_| { rendezvous(&c0, 3); thread::current().id() },
            1 -> move |_| { rendezvous(&c1, 3); thread::current().id() },
            2 -> move |_| { rendezvous(&c2, 3); thread::current().id() },
        };
        assert_ne!(ids.0, ids.1);
        assert_ne!(ids.1, ids.2);
        assert_ne!(ids.0, ids.2);
        assert_eq!(counter.load(Ordering::SeqCst), 3);
    }

    #[test]
    fn step_barrier_and_block_captures() {
        let log = Arc::new(Mutex::new(Vec::<String>::new()));
        let push = |log: &Arc<Mutex<Vec<String>>>, s: &str| log.lock().unwrap().push(s.to_owned());
        let (l0, l1, l2, l3, l4) = (
            log.clone(),
            log.clone(),
            log.clone(),
            log.clone(),
            log.clone(),
        );

        let result = join_spawn! {
            let first = 1 -> move |v| { thread::sleep(Duration::from_millis(40)); push(&l0, "s0b0"); v + 1 }
                ~-> { push(&l2, "cap0"); let second = second; move |v| v + second } ,
            let second = 10 -> move |v| { push(&l1, "s0b1"); v + 1 }
                ~-> { push(&l3, "cap1"); let first = first; move |v| { push(&l4, "s1b1"); v + first } },
        };

        assert_eq!(result, (13, 13));
        let log = log.lock().unwrap().clone();
        let pos = |s: &str| log.iter().position(|e| e == s).unwrap();
        assert_eq!(log.len(), 5);
        assert!(pos("s0b0") < pos("cap0"));
        assert!(pos("s0b1") < pos("cap0"));
        assert!(pos("cap0") < pos("cap1"));
        assert!(pos("cap1") < pos("s1b1"));
    }

    #[test]
    fn try_spawn_reports_lowest_failing_branch_and_aborts_later_steps() {
        let later = Arc::new(AtomicBool::new(false));
        let ran = Arc::new(AtomicUsize::new(0));
        let (r0, r1, r2) = (ran.clone(), ran.clone(), ran.clone());
        let (t0, t1) = (later.clone(), later.clone());

        let result: Result<(u8, u8, u8), String> = try_join_spawn! {
            Ok::<u8, String>(0) => move |v| { r0.fetch_add(1, Ordering::SeqCst); Ok(v) }
                ~|> move |v| { t0.store(true, Ordering::SeqCst); v },
            Ok::<u8, String>(1) => move |_| { r1.fetch_add(1, Ordering::SeqCst); Err("one".to_owned()) }
                ~|> move |v: u8| { t1.store(true, Ordering::SeqCst); v },
            Ok::<u8, String>(2) => move |_| { thread::sleep(Duration::from_millis(30)); r2.fetch_add(1, Ordering::SeqCst); Err("two".to_owned()) },
            map => |a, b, c| (a, b, c)
        };

        assert_eq!(result, Err("one".to_owned()));
        assert_eq!(ran.load(Ordering::SeqCst), 3);
        assert!(!later.load(Ordering::SeqCst));

        let all: Option<(u8, u8)> = try_spawn! { Some(1u8) |> |v| v + 1, Some(2u8) ~|> |v| v + 1 };
        assert_eq!(all, Some((2, 3)));
    }

    #[test]
    fn spawn_variants_agree_with_plain_macros() {
        let plain = join! {
            vec![1, 2, 3].into_iter() |> |v| v * 2 =>[] Vec<i32>,
            Some(4) |> |v| v + 1 ~=> |v| Some(v * 2),
            "abc" ..len(),
            then => |a, b, c| (c, b, a)
        };
        let spawned = join_spawn! {
            vec![1, 2, 3].into_iter() |> |v| v * 2 =>[] Vec<i32>,
            Some(4) |> |v| v + 1 ~=> |v| Some(v * 2),
            "abc" ..len(),
            then => |a, b, c| (c, b, a)
        };
        let aliased = spawn! {
            vec![1, 2, 3].into_iter() |> |v| v * 2 =>[] Vec<i32>,
            Some(4) |> |v| v + 1 ~=> |v| Some(v * 2),
            "abc" ..len(),
            then => |a, b, c| (c, b, a)
        };
        assert_eq!(plain, (3, Some(10), vec![2, 4, 6]));
        assert_eq!(plain, spawned);
        assert_eq!(plain, aliased);

        let plain: Result<i32, String> = try_join! {
            Ok::<_, String>(1) |> |v| v + 1,
            Ok::<_, String>(2) ~=> |v| Ok(v + 1),
            and_then => |a, b| Ok(a + b)
        };
        let spawned: Result<i32, String> = try_join_spawn! {
            Ok::<_, String>(1) |> |v| v + 1,
            Ok::<_, String>(2) ~=> |v| Ok(v + 1),
            and_then => |a, b| Ok(a + b)
        };
        assert_eq!(plain, Ok(5));
        assert_eq!(plain, spawned);
    }

    #[test]
    fn panic_surfaces_without_waiting_for_higher_numbered_siblings() {
        let release = Arc::new(AtomicBool::new(false));
        let sibling_done = Arc::new(AtomicBool::new(false));
        let (release_in, done_in) = (release.clone(), sibling_done.clone());
        let later_step = Arc::new(AtomicBool::new(false));
        let later_in = later_step.clone();

        let outcome = catch_unwind(AssertUnwindSafe(|| {
            join_spawn! {
                0 -> |v: i32| { if v == 0 { panic!("branch 0 panicked") }; v } ~-> move |v| { later_in.store(true, Ordering::SeqCst); v },
                1 -> move |v: i32| {
                    let started = Instant::now();
                    while !release_in.load(Ordering::SeqCst) && started.elapsed() < Duration::from_secs(20) {
                        thread::yield_now();
                    }
                    done_in.store(true, Ordering::SeqCst);
                    v
                },
            }
        }));

        // The macro panicked while branch 1 was still blocked.
        assert!(outcome.is_err());
        assert!(!sibling_done.load(Ordering::SeqCst));
        assert!(!later_step.load(Ordering::SeqCst));
        release.store(true, Ordering::SeqCst);
    }

    static JOINER_CALLS: AtomicUsize = AtomicUsize::new(0);

    fn counting_joiner<A, B>(
        a: thread::JoinHandle<A>,
        b: thread::JoinHandle<B>,
    ) -> (thread::JoinHandle<A>, thread::JoinHandle<B>) {
        JOINER_CALLS.fetch_add(1, Ordering::SeqCst);
        (a, b)
    }

    macro_rules! ordered_joiner {
        ($a:expr, $b:expr) => {{
            // Evaluates (and therefore spawns) in branch order, hands the handles back in branch order.
            let a = $a;
            let b = $b;
            (a, b)
        }};
    }

    macro_rules! closure_joiner {
        ($($e:expr),*) => {
            // Every branch expression is moved into its own closure before being evaluated.
            ($( (move || $e)() ),*)
        };
    }

    #[test]
    fn custom_macro_joiner_may_wrap_branches_into_move_closures() {
        let names = thread::Builder::new()
            .name("mj".into())
            .spawn(|| {
                spawn! {
                    custom_joiner(closure_joiner!)
                    0u8 -> |_| current_name() ~-> |v| v,
                    1u8 -> |_| current_name() ~-> |v| v,
                    2u8 -> |_| current_name(),
                }
            })
            .unwrap()
            .join()
            .unwrap();

        assert_eq!(
            names,
            (
                Some("mj_join_0".to_owned()),
                Some("mj_join_1".to_owned()),
                Some("mj_join_2".to_owned())
            )
        );
    }

    #[test]
    fn custom_joiner_receives_handles_in_branch_order() {
        let result = thread::Builder::new()
            .name("cj".into())
            .spawn(|| {
                join_spawn! {
                    custom_joiner(counting_joiner)
                    0u8 -> |_| current_name() ~-> |v| (v, current_name()),
                    1u8 -> |v| (v, current_name()),
                }
            })
            .unwrap()
            .join()
            .unwrap();

        assert_eq!(
            result,
            (
                (Some("cj_join_0".to_owned()), Some("cj".to_owned())),
                (1, Some("cj_join_1".to_owned())),
            )
        );
        // Only step 0 has more than one active branch.
        assert_eq!(JOINER_CALLS.load(Ordering::SeqCst), 1);

        let result: Option<(u8, u8)> = try_join_spawn! {
            custom_joiner(ordered_joiner!)
            Some(1u8) |> |v| v + 1 ~|> |v| v + 1,
            Some(2u8) |> |v| v + 1 ~|> |v| v + 1,
        };
        assert_eq!(result, Some((3, 4)));
    }

    #[test]
    fn nested_spawn_macros_extend_thread_names() {
        let names = thread::Builder::new()
            .name("root".into())
            .spawn(|| {
                join_spawn! {
                    0u8 -> |_| current_name(),
                    1u8 -> |_| join_spawn! {
                        0u8 -> |_| current_name(),
                        1u8 -> |_| try_join_spawn! { Some(current_name()), Some(2u8) |> |_| current_name() },
                        // single branch: runs on the thread that evaluates it
                        join_spawn! { current_name() },
                    },
                }
            })
            .unwrap()
            .join()
            .unwrap();

        assert_eq!(names.0, Some("root_join_0".to_owned()));
        let inner = names.1;
        assert_eq!(inner.0, Some("root_join_1_join_0".to_owned()));
        assert_eq!(
            inner.1,
            Some((
                Some("root_join_1_join_1_join_0".to_owned()),
                Some("root_join_1_join_1_join_1".to_owned())
            ))
        );
        assert_eq!(inner.2, Some("root_join_1_join_2".to_owned()));
    }

    #[test]
    fn values_are_moved_and_dropped_once() {
        struct Tracked(Arc<AtomicUsize>, u32);
        impl Drop for Tracked {
            fn drop(&mut self) {
                self.0.fetch_add(1, Ordering::SeqCst);
            }
        }

        let drops = Arc::new(AtomicUsize::new(0));
        {
            let (d0, d1) = (drops.clone(), drops.clone());
            let (a, b) = join_spawn! {
                Tracked(d0, 1) -> |t| t ~-> |t| t,
                Tracked(d1, 2) -> |t| t,
            };
            assert_eq!(drops.load(Ordering::SeqCst), 0);
            assert_eq!((a.1, b.1), (1, 2));
        }
        assert_eq!(drops.load(Ordering::SeqCst), 2);
    }
}
