//!
//! Extra tests for the async code paths: step joiner (plain and `try`), `tokio` spawn helper,
//! results flow between steps.
//!
#[cfg(test)]
mod demo_n1 {
    use futures::{
        channel::oneshot,
        executor::block_on,
        future::{err, ok, pending, ready, FutureExt},
    };
    use join::{
        async_spawn, join_async, join_async_spawn, try_async_spawn, try_join_async,
        try_join_async_spawn,
    };
    use std::{
        future::Future,
        panic::AssertUnwindSafe,
        pin::Pin,
        sync::{
            atomic::{AtomicUsize, Ordering},
            Arc, Mutex,
        },
        task::{Context, Poll},
        thread,
        time::Duration,
    };
    use tokio::runtime::Runtime;

    // Deliberately shadows `Result` to make sure generated helpers don't depend on the prelude name.
    #[allow(dead_code)]
    type Result<T> = std::result::Result<T, String>;

    type Log = Arc<Mutex<Vec<String>>>;

    fn log(log: &Log, entry: impl Into<String>) {
        log.lock().unwrap().push(entry.into());
    }

    ///
    /// Future which returns `Pending` (waking itself) given times and then yields the value.
    ///
    struct YieldTimes<T> {
        left: usize,
        value: Option<T>,
        polls: Arc<AtomicUsize>,
    }

    impl<T> YieldTimes<T> {
        fn new(left: usize, value: T) -> Self {
            Self {
                left,
                value: Some(value),
                polls: Arc::new(AtomicUsize::new(0)),
            }
        }
    }

    impl<T: Unpin> Future for YieldTimes<T> {
        type Output = T;

        fn poll(mut self: Pin<&mut Self>, cx: &mut Context<'_>) -> Poll<T> {
            self.polls.fetch_add(1, Ordering::SeqCst);
            if self.left == 0 {
                Poll::Ready(self.value.take().expect("polled after completion"))
            } else {
                self.left -= 1;
                cx.waker().wake_by_ref();
                Poll::Pending
            }
        }
    }

    ///
    /// Future woken up from another thread.
    ///
    struct WokenFromThread {
        started: bool,
        done: Arc<Mutex<bool>>,
    }

    impl Future for WokenFromThread {
        type Output = u8;

        fn poll(mut self: Pin<&mut Self>, cx: &mut Context<'_>) -> Poll<u8> {
            if *self.done.lock().unwrap() {
                return Poll::Ready(7);
            }
            if !self.started {
                self.started = true;
                let waker = cx.waker().clone();
                let done = self.done.clone();
                thread::spawn(move || {
                    thread::sleep(Duration::from_millis(50));
                    *done.lock().unwrap() = true;
                    waker.wake();
                });
            }
            Poll::Pending
        }
    }

    #[test]
    fn steps_are_separated_by_barrier() {
        let l: Log = Default::default();
        let (l0, l1, l2, l3, l4) = (l.clone(), l.clone(), l.clone(), l.clone(), l.clone());
        let result = block_on(join_async! {
            YieldTimes::new(3, 1u32) |> move |v| { log(&l0, "a0"); v + 1 }
                ~|> move |v| { log(&l1, "a1"); v * 10 },
            YieldTimes::new(0, 2u32) |> move |v| { log(&l2, "b0"); v + 1 }
                ~|> move |v| { log(&l3, "b1"); v * 10 },
            YieldTimes::new(5, 3u32) |> move |v| { log(&l4, "c0"); v + 1 },
        });
        assert_eq!(result, (20, 30, 4));
        let l = l.lock().unwrap();
        assert_eq!(l.len(), 5);
        let pos = |name: &str| l.iter().position(|entry| entry == name).unwrap();
        for first in &["a0", "b0", "c0"] {
            for second in &["a1", "b1"] {
                assert!(pos(first) < pos(second), "{} before {}", first, second);
            }
        }
        assert_eq!(&l[..3], ["b0", "a0", "c0"]);
    }

    #[test]
    fn every_future_is_polled_until_done_and_never_after() {
        let a = YieldTimes::new(2, 'a');
        let b = YieldTimes::new(4, 'b');
        let (pa, pb) = (a.polls.clone(), b.polls.clone());
        let result = block_on(join_async! { a, b });
        assert_eq!(result, ('a', 'b'));
        assert_eq!(pa.load(Ordering::SeqCst), 3);
        assert_eq!(pb.load(Ordering::SeqCst), 5);
    }

    #[test]
    fn branches_of_step_are_concurrent() {
        let (tx, rx) = oneshot::channel::<u8>();
        let (tx2, rx2) = oneshot::channel::<u8>();
        // Branch 0 waits for the branch 1 which waits for the branch 2.
        let result = block_on(join_async! {
            rx |> |v| v.unwrap() + 1,
            rx2 |> move |v| { let v = v.unwrap(); tx.send(v + 1).unwrap(); v },
            YieldTimes::new(2, 5u8) |> move |v| { tx2.send(v + 1).unwrap(); v },
        });
        assert_eq!(result, (8, 6, 5));
    }

    #[test]
    fn wake_up_from_other_thread_reaches_macro_future() {
        let result = block_on(join_async! {
            WokenFromThread { started: false, done: Default::default() },
            ready(1u8),
            then => |a, b| async move { a + b }
        });
        assert_eq!(result, 8);

        let result = block_on(try_join_async! {
            WokenFromThread { started: false, done: Default::default() } |> Ok::<_, ()>,
            ok::<_, ()>(1u8) ~=> |v| ok(v + 1),
            map => |a, b| a + b
        });
        assert_eq!(result, Ok(9));
    }

    #[test]
    fn try_returns_first_error_without_waiting_for_pending_sibling() {
        let result = block_on(try_join_async! {
            pending::<std::result::Result<u8, &'static str>>(),
            err::<u8, _>("failed"),
            ok::<_, &'static str>(3u8),
        });
        assert_eq!(result, Err("failed"));

        let result = block_on(try_join_async! {
            err::<u8, _>("first"),
            err::<u8, _>("second"),
        });
        assert_eq!(result, Err("first"));

        let result = block_on(try_join_async! {
            YieldTimes::new(2, Err::<u8, _>("late")),
            YieldTimes::new(1, Err::<u8, _>("early")),
        });
        assert_eq!(result, Err("early"));
    }

    #[test]
    fn try_failed_step_aborts_later_steps() {
        let counter = Arc::new(AtomicUsize::new(0));
        let (c0, c1, c2) = (counter.clone(), counter.clone(), counter.clone());
        let result = block_on(try_join_async! {
            ok::<_, String>(1u8) ~=> move |v| { c0.fetch_add(1, Ordering::SeqCst); ok(v) },
            ok::<_, String>(2u8) => |_| err::<u8, _>("boom".to_owned())
                ~=> move |v| { c1.fetch_add(1, Ordering::SeqCst); ok(v) },
            and_then => move |a, b| { c2.fetch_add(1, Ordering::SeqCst); ok::<_, String>(a + b) }
        });
        assert_eq!(result, Err("boom".to_owned()));
        assert_eq!(counter.load(Ordering::SeqCst), 0);
    }

    #[test]
    fn finished_branch_keeps_value() {
        // Branch 1 is finished after step 0, branch 2 after step 1.
        let result = block_on(try_join_async! {
            ok::<_, u8>(1u16) ~!> |e: u8| e + 1 => |v| ok(v + 1) ~=> |v| ok(v + 1),
            ok::<_, u8>(2u16),
            ok::<_, u8>(3u16) ~!> |e: u8| e + 1,
        });
        assert_eq!(result, Ok((3, 2, 3)));

        let result = block_on(try_join_async! {
            ok::<_, u8>(1u16) ~=> |v| ok(v + 1) ~=> |v| ok(v + 1),
            ok::<_, u8>(2u16),
            ok::<_, u8>(3u16) ~=> |v| err::<u16, _>(v as u8) ~!> |e: u8| e + 1,
        });
        assert_eq!(result, Err(3));
    }

    #[test]
    fn let_names_and_block_captures_see_previous_step() {
        let result = block_on(try_join_async! {
            let first = ok::<_, ()>(1u32) ~=> |v| ok(v + 1) ~=> |v| ok(v + 1),
            let second = ok::<_, ()>(10u32) ~=> { let first = *first.as_ref().unwrap(); move |v| ok(v + first) }
                ~=> { let (first, second) = (*first.as_ref().unwrap(), *second.as_ref().unwrap()); move |v| ok(v + first + second) },
            ok::<_, ()>(100u32),
            map => |a, b, c| a + b + c
        });
        // first: 1 -> 2 -> 3; second: 10 -> 11 -> 11 + 2 + 11 = 24
        assert_eq!(result, Ok(3 + 24 + 100));
    }

    #[test]
    fn twelve_branches_three_steps() {
        let result = block_on(join_async! {
            ready(0u32) ~|> |v| v + 1 ~|> |v| v + 1,
            ready(1u32),
            ready(2u32) ~|> |v| v + 1,
            ready(3u32),
            ready(4u32) ~|> |v| v + 1 ~|> |v| v + 1,
            ready(5u32),
            ready(6u32) ~|> |v| v + 1,
            ready(7u32),
            ready(8u32),
            ready(9u32) ~|> |v| v + 1,
            ready(10u32),
            ready(11u32) ~|> |v| v + 1 ~|> |v| v + 1,
        });
        assert_eq!(result, (2, 1, 3, 3, 6, 5, 7, 7, 8, 10, 10, 13));
    }

    #[test]
    fn macros_are_lazy() {
        let counter = Arc::new(AtomicUsize::new(0));
        let rt = Runtime::new().unwrap();
        let inc = |c: &Arc<AtomicUsize>| {
            let c = c.clone();
            async move { c.fetch_add(1, Ordering::SeqCst) }
        };
        let inc_ok = |c: &Arc<AtomicUsize>| {
            let c = c.clone();
            async move { Ok::<_, ()>(c.fetch_add(1, Ordering::SeqCst)) }
        };
        let (c0, c1, c2, c3) = (counter.clone(), counter.clone(), counter.clone(), counter.clone());
        let f0 = join_async! { inc(&c0), inc(&c0) };
        let f1 = try_join_async! { inc_ok(&c1), inc_ok(&c1) };
        let f2 = join_async_spawn! { inc(&c2), inc(&c2) };
        let f3 = try_join_async_spawn! { inc_ok(&c3), inc_ok(&c3) };
        thread::sleep(Duration::from_millis(20));
        assert_eq!(counter.load(Ordering::SeqCst), 0);
        rt.block_on(async move {
            f0.await;
            f1.await.unwrap();
            f2.await;
            f3.await.unwrap();
        });
        assert_eq!(counter.load(Ordering::SeqCst), 8);
    }

    #[test]
    fn spawned_steps_run_as_concurrent_tasks() {
        let rt = Runtime::new().unwrap();
        let (tx, rx) = oneshot::channel::<u8>();
        let result = rt.block_on(join_async_spawn! {
            rx |> |v| v.unwrap() + 1 ~|> |v| v * 2,
            async move { tx.send(4).unwrap(); 1u8 } ~|> |v| v * 2,
            then => |a, b| async move { (a, b) }
        });
        assert_eq!(result, (10, 2));

        let result = rt.block_on(async_spawn! {
            ready(1u8) |> |v| v + 1, ready(2u8) ~|> |v| v + 1
        });
        assert_eq!(result, (2, 3));
    }

    #[test]
    #[should_panic(expected = "tokio JoinHandle failed")]
    fn panic_in_spawned_task_reaches_caller() {
        let rt = Runtime::new().unwrap();
        rt.block_on(join_async_spawn! {
            ready(1u8),
            ready(2u8) |> |_| -> u8 { panic!("branch panic") },
        });
    }

    #[test]
    fn panic_in_spawned_task_does_not_wait_for_siblings() {
        let rt = Runtime::new().unwrap();
        let counter = Arc::new(AtomicUsize::new(0));
        let c = counter.clone();
        let result = rt.block_on(
            AssertUnwindSafe(try_join_async_spawn! {
                pending::<std::result::Result<u8, ()>>() ~=> move |v| { c.fetch_add(1, Ordering::SeqCst); ok(v) },
                ok::<u8, ()>(2u8) => |_| async { if true { panic!("branch panic") } Ok::<u8, ()>(1) },
            })
            .catch_unwind(),
        );
        assert!(result.is_err());
        assert_eq!(counter.load(Ordering::SeqCst), 0);

        let result = rt.block_on(
            AssertUnwindSafe(join_async! {
                pending::<u8>(),
                ready(2u8) |> |_| -> u8 { panic!("branch panic") },
            })
            .catch_unwind(),
        );
        assert!(result.is_err());
    }

    #[test]
    fn try_spawn_returns_error_unchanged_and_matches_plain_variant() {
        let rt = Runtime::new().unwrap();
        let spawned = rt.block_on(try_join_async_spawn! {
            ok::<_, String>(1u8) ~=> |v| ok(v + 1),
            ok::<_, String>(2u8) => |v| err::<u8, _>(format!("failed with {}", v)),
            pending::<std::result::Result<u8, String>>(),
        });
        let plain = rt.block_on(try_join_async! {
            ok::<_, String>(1u8) ~=> |v| ok(v + 1),
            ok::<_, String>(2u8) => |v| err::<u8, _>(format!("failed with {}", v)),
            pending::<std::result::Result<u8, String>>(),
        });
        assert_eq!(spawned, Err("failed with 2".to_owned()));
        assert_eq!(spawned, plain);

        let spawned = rt.block_on(try_async_spawn! {
            ok::<_, String>(1u8) ~=> |v| ok(v + 1),
            ok::<_, String>(2u8),
            and_then => |a, b| ok::<_, String>(a + b)
        });
        assert_eq!(spawned, Ok(4));
    }

    #[test]
    fn macro_future_is_send_and_nests() {
        let rt = Runtime::new().unwrap();
        let result = rt.block_on(async {
            tokio::spawn(join_async! {
                futures_crate_path(::futures)
                join_async_spawn! { ready(1u8), ready(2u8) ~|> |v| v + 1 } |> |(a, b)| a + b,
                try_join_async! {
                    futures_crate_path(futures)
                    ok::<_, ()>(1u8), ok::<_, ()>(2u8) ~=> |v| ok(v + 1),
                    map => |a, b| a + b
                } ~|> |v| v.unwrap(),
                then => |a, b| join_async! { ready(a), ready(b), ready(5u8) }
            })
            .await
            .unwrap()
        });
        assert_eq!(result, (4, 4, 5));
    }

    #[test]
    fn values_are_moved_not_cloned() {
        struct NoClone(u8, Arc<AtomicUsize>);
        impl Drop for NoClone {
            fn drop(&mut self) {
                self.1.fetch_add(1, Ordering::SeqCst);
            }
        }
        let drops = Arc::new(AtomicUsize::new(0));
        let rt = Runtime::new().unwrap();
        {
            let (d0, d1) = (drops.clone(), drops.clone());
            let (a, b) = rt
                .block_on(try_join_async_spawn! {
                    ok::<_, ()>(NoClone(1, d0)) ~|> |v| v ~=> ok,
                    ok::<_, ()>(NoClone(2, d1)),
                })
                .ok()
                .unwrap();
            assert_eq!((a.0, b.0), (1, 2));
            assert_eq!(drops.load(Ordering::SeqCst), 0);
        }
        assert_eq!(drops.load(Ordering::SeqCst), 2);
    }
}
