//!
//! Extra tests for the block-capture hoisting / joiner / transposition paths.
//!

#[cfg(test)]
#[allow(clippy::unused_unit)]
mod demo_n4 {
    use futures::{
        executor::block_on,
        future::{ok, ready},
    };
    use join::{join, join_async, join_spawn, try_join, try_join_async, try_join_spawn, try_spawn};
    use std::cell::RefCell;
    use std::sync::{
        atomic::{AtomicUsize, Ordering},
        Arc, Mutex,
    };

    type Log = RefCell<Vec<&'static str>>;

    fn note(log: &Log, what: &'static str) {
        log.borrow_mut().push(what);
    }

    #[test]
    fn captures_are_hoisted_in_branch_then_position_order() {
        let log: Log = RefCell::new(Vec::new());
        let result = join! {
            { note(&log, "b0.init"); Some(1u32) }
                |> { note(&log, "b0.e1"); |v| { note(&log, "b0.map"); v + 1 } }
                ~|> { note(&log, "b0.s1.e0"); |v| { note(&log, "b0.s1.map"); v * 10 } }
                ?> { note(&log, "b0.s1.e1"); |v: &u32| { note(&log, "b0.s1.filter"); *v > 0 } },
            { note(&log, "b1.init"); vec![1u32, 2, 3] }
                ..into_iter()
                ^@ { note(&log, "b1.fold.init"); 100u32 }, { note(&log, "b1.fold.fn"); |acc, v| acc + v }
                ~-> { note(&log, "b1.s1.e0"); |v| { note(&log, "b1.s1.then"); v + 1 } },
        };
        assert_eq!(result, (Some(20), 107));
        assert_eq!(
            *log.borrow(),
            vec![
                // step 0 captures: branch, then position
                "b0.init",
                "b0.e1",
                "b1.init",
                "b1.fold.init",
                "b1.fold.fn",
                // step 0 expressions
                "b0.map",
                // step 1 captures
                "b0.s1.e0",
                "b0.s1.e1",
                "b1.s1.e0",
                // step 1 expressions
                "b0.s1.map",
                "b0.s1.filter",
                "b1.s1.then",
            ]
        );
    }

    #[test]
    fn captures_inside_nested_wrappers_are_hoisted_once() {
        let log: Log = RefCell::new(Vec::new());
        let result = try_join! {
            Some(Some(2u32))
                => >>>
                    |> { note(&log, "inner.map"); |v| v + 1 }
                    ?> { note(&log, "inner.filter"); |v: &u32| *v == 3 }
                <<<
                |> { note(&log, "outer.map"); |v| v * 2 },
            Some(5u32) ~|> { note(&log, "b1.s1"); |v| v + 1 },
        };
        assert_eq!(result, Some((6, 6)));
        assert_eq!(
            *log.borrow(),
            vec!["inner.map", "inner.filter", "outer.map", "b1.s1"]
        );
    }

    #[test]
    fn let_names_are_visible_in_later_captures() {
        let result = try_join! {
            let first = Ok::<_, ()>(1u32) ~|> |v| v + 1 ~|> { let s = *second.as_ref().unwrap(); move |v| v + s },
            let second = Ok::<_, ()>(10u32) ~|> { let f = *first.as_ref().unwrap(); move |v| v + f },
            map => |a, b| (a, b)
        };
        // step 1: second = 10 + 1; step 2: first = 2 + 11
        assert_eq!(result, Ok((13, 11)));
    }

    #[test]
    fn failed_step_skips_later_captures_and_returns_lowest_branch() {
        let later = AtomicUsize::new(0);
        let ran = AtomicUsize::new(0);
        let result: Result<(u8, u8, u8), &'static str> = try_join! {
            Ok::<u8, &'static str>(1) |> |v| { ran.fetch_add(1, Ordering::SeqCst); v }
                ~|> { later.fetch_add(1, Ordering::SeqCst); |v| v },
            Err::<u8, &'static str>("one") <= |e| { ran.fetch_add(1, Ordering::SeqCst); Err(e) }
                ~|> { later.fetch_add(1, Ordering::SeqCst); |v| v },
            Err::<u8, &'static str>("two") !> |e| { ran.fetch_add(1, Ordering::SeqCst); e }
                ~|> { later.fetch_add(1, Ordering::SeqCst); |v| v },
        };
        assert_eq!(result, Err("one"));
        assert_eq!(ran.load(Ordering::SeqCst), 3);
        assert_eq!(later.load(Ordering::SeqCst), 0);
    }

    #[test]
    fn failure_in_second_step_of_longer_branch_only() {
        let result: Option<(u8, u8, u8)> = try_join! {
            Some(1u8),
            Some(2u8) ~=> |_| None::<u8> ~|> |v| v + 1,
            Some(3u8) ~|> |v| v + 1 ~|> |v| v + 1,
        };
        assert_eq!(result, None);

        let result: Result<(u8, u8, u8), u8> = try_join! {
            Ok::<u8, u8>(1),
            Ok::<u8, u8>(2) ~|> |v| v + 1 ~=> |v| Err::<u8, u8>(v),
            Ok::<u8, u8>(3) ~|> |v| v + 1 ~=> |v| Err::<u8, u8>(v + 100),
        };
        assert_eq!(result, Err(3));

        let result: Result<(u8, u8, u8), u8> = try_join! {
            Ok::<u8, u8>(1),
            Ok::<u8, u8>(2) ~|> |v| v + 1 ~|> |v| v + 1,
            Ok::<u8, u8>(3) ~|> |v| v + 1 ~|> |v| v + 1 ~|> |v| v + 1,
        };
        assert_eq!(result, Ok((1, 4, 6)));
    }

    #[test]
    fn custom_joiner_is_called_once_per_multi_branch_step() {
        let calls = AtomicUsize::new(0);
        let widths: Mutex<Vec<usize>> = Mutex::new(Vec::new());

        macro_rules! counting_joiner {
            ($($branch: expr),+) => {{
                calls.fetch_add(1, Ordering::SeqCst);
                widths.lock().unwrap().push([$(stringify!($branch)),+].len());
                ($($branch),+)
            }};
        }

        let result = join! {
            custom_joiner(counting_joiner!)
            1u32 -> |v| v + 1 ~-> |v| v + 1 ~-> |v| v + 1,
            10u32 -> |v| v + 1 ~-> { let c = calls.load(Ordering::SeqCst) as u32; move |v| v + c },
            100u32 -> |v| v + 1,
        };
        // step 0: 3 branches, step 1: 2 branches, step 2: 1 branch (no joiner call)
        assert_eq!(result, (4, 12, 101));
        assert_eq!(calls.load(Ordering::SeqCst), 2);
        assert_eq!(*widths.lock().unwrap(), vec![3, 2]);
    }

    #[test]
    fn lazy_branches_are_zero_argument_closures() {
        fn call_both<A, B>(a: impl FnOnce() -> A, b: impl FnOnce() -> B) -> (A, B) {
            // deliberately run the second branch first
            let b = b();
            (a(), b)
        }
        let log_cell: Log = RefCell::new(Vec::new());
        let log = &log_cell;
        let result = join! {
            custom_joiner(call_both)
            lazy_branches(true)
            { note(log, "cap0"); 1u32 } -> |v| { note(log, "run0"); v + 1 },
            { note(log, "cap1"); 2u32 } -> |v| { note(log, "run1"); v + 1 },
            then => |a, b| a * b
        };
        assert_eq!(result, 6);
        assert_eq!(*log.borrow(), vec!["cap0", "cap1", "run1", "run0"]);
    }

    #[test]
    fn transpose_switch_uses_joiner_output_as_result() {
        fn zip_results<A, B, E>(a: Result<A, E>, b: Result<B, E>) -> Result<(A, B), E> {
            a.and_then(|a| b.map(|b| (a, b)))
        }
        let steps = AtomicUsize::new(0);
        let result = try_join! {
            transpose_results(false)
            custom_joiner(zip_results)
            Ok::<u32, &'static str>(1) ~-> { steps.fetch_add(1, Ordering::SeqCst); |v| Ok::<u32, &'static str>(v + 1) },
            Ok::<u32, &'static str>(2) ~-> { steps.fetch_add(1, Ordering::SeqCst); |v| Ok::<u32, &'static str>(v + 2) },
            map => |a, b| a + b
        };
        assert_eq!(result, Ok(6));
        assert_eq!(steps.load(Ordering::SeqCst), 2);

        let result = try_join! {
            custom_joiner(zip_results)
            transpose_results(false)
            Ok::<u32, &'static str>(1) ~-> { steps.fetch_add(1, Ordering::SeqCst); |v| Ok::<u32, &'static str>(v + 1) },
            Err::<u32, &'static str>("boom") ~-> { steps.fetch_add(1, Ordering::SeqCst); |v| Ok::<u32, &'static str>(v + 2) },
            map => |a, b| a + b
        };
        assert_eq!(result, Err("boom"));
        assert_eq!(steps.load(Ordering::SeqCst), 2);
    }

    #[test]
    fn spawn_variants_hoist_captures_on_the_calling_thread() {
        let caller = std::thread::current().id();
        let seen = Arc::new(Mutex::new(Vec::new()));
        let (s0, s1) = (seen.clone(), seen.clone());
        let result = try_join_spawn! {
            Ok::<u32, ()>(1) ~|> {
                assert_eq!(std::thread::current().id(), caller);
                move |v| { s0.lock().unwrap().push(std::thread::current().name().unwrap().to_owned()); v + 1 }
            },
            Ok::<u32, ()>(2) ~|> {
                assert_eq!(std::thread::current().id(), caller);
                move |v| { s1.lock().unwrap().push(std::thread::current().name().unwrap().to_owned()); v + 1 }
            },
        };
        assert_eq!(result, Ok((2, 3)));
        let mut names = seen.lock().unwrap().clone();
        names.sort();
        let me = std::thread::current().name().unwrap().to_owned();
        assert_eq!(
            names,
            vec![format!("{}_join_0", me), format!("{}_join_1", me)]
        );

        let plain = join! { 1u8 -> |v| v + 1 ~-> |v| v * 2, 2u8 -> |v| v + 1 };
        let spawned = join_spawn! { 1u8 -> |v| v + 1 ~-> |v| v * 2, 2u8 -> |v| v + 1 };
        assert_eq!(plain, spawned);

        let failed: Result<(u8, u8), u8> = try_spawn! {
            Ok::<u8, u8>(1) ~=> |v| Err::<u8, u8>(v) ~|> |v| v,
            Err::<u8, u8>(7) ~|> |v| v,
        };
        assert_eq!(failed, Err(7));
    }

    #[test]
    fn async_captures_are_lazy_and_ordered() {
        let log_cell: Log = RefCell::new(Vec::new());
        let log = &log_cell;
        let fut = join_async! {
            { note(&log, "b0.init"); ready(1u32) } |> { note(&log, "b0.e1"); |v| v + 1 }
                ~|> { note(&log, "b0.s1"); |v| v + 1 },
            { note(&log, "b1.init"); ready(2u32) }
                ~|> { note(&log, "b1.s1"); |v| v + 1 },
            then => |a, b| ready(a + b)
        };
        assert!(log.borrow().is_empty());
        assert_eq!(block_on(fut), 6);
        assert_eq!(
            *log.borrow(),
            vec!["b0.init", "b0.e1", "b1.init", "b0.s1", "b1.s1"]
        );
    }

    #[test]
    fn async_try_with_custom_joiner_and_transpose_switch() {
        macro_rules! futures_try_joiner {
            ($($futures: expr),+) => {
                ::futures::try_join!($($futures),*)
            }
        }
        let value = block_on(try_join_async! {
            transpose_results(false)
            futures_crate_path(::futures)
            custom_joiner(futures_try_joiner!)
            ok::<_, ()>(2u16) ~=> { let k = 1; move |v| ok::<_, ()>(v + k) },
            ok::<_, ()>(3u16) ~=> |v| ok::<_, ()>(v + 1),
            map => |a, b| a + b
        });
        assert_eq!(value, Ok(7));
    }

    #[test]
    fn two_digit_indices_do_not_clash() {
        let result = join! {
            0u32 -> |v| v -> |v| v -> |v| v -> |v| v -> |v| v -> |v| v -> |v| v -> |v| v
                -> |v| v -> |v| v -> { let k = 11; move |v| v + k } -> { let k = 1; move |v| v * 2 + k },
            1u32 -> { let k = 100; move |v| v + k },
            2u32, 3u32, 4u32, 5u32, 6u32, 7u32, 8u32, 9u32, 10u32,
            11u32 -> { let k = 1000; move |v| v + k },
        };
        assert_eq!(result, (23, 101, 2, 3, 4, 5, 6, 7, 8, 9, 10, 1011));
    }

    #[test]
    fn nested_macros_inside_captures() {
        let result = try_join! {
            Some(1u32) ~|> { let (a, b) = join! { 2u32 -> { let k = 1; move |v| v + k }, 3u32 }; move |v| v + a + b },
            Some(10u32) ~=> { let inner = try_join! { Some(1u32) ~|> { |v| v + 1 }, Some(2u32) }; move |v| inner.map(|(a, b)| v + a + b) },
        };
        assert_eq!(result, Some((7, 14)));
    }
}
