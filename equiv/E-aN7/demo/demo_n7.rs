//!
//! Extra tests for the code generator paths touched by the N7 refactoring:
//! one-step / no-handler shortcuts, conditionally emitted helper fns, inlined thread builders,
//! `if`/`else if` failure dispatch of `try` macros.
//!
#![allow(unused_mut, clippy::unused_unit, clippy::unnecessary_wraps)]

use std::sync::atomic::{AtomicUsize, Ordering};
use std::sync::{Arc, Barrier, Mutex};

use futures::executor::block_on;
use futures::future::{ready, FutureExt};
use join::{
    async_spawn, join, join_async, join_async_spawn, join_spawn, spawn, try_async_spawn, try_join,
    try_join_async, try_join_async_spawn, try_join_spawn, try_spawn,
};

type Res<T> = Result<T, String>;

/// Not `Copy`, not `Clone`: counts its drops.
struct Token(u32, Arc<AtomicUsize>);

impl Drop for Token {
    fn drop(&mut self) {
        self.1.fetch_add(1, Ordering::SeqCst);
    }
}

static JOINER_CALLS: AtomicUsize = AtomicUsize::new(0);

fn pair_joiner<A, B>(a: A, b: B) -> (A, B) {
    JOINER_CALLS.fetch_add(1, Ordering::SeqCst);
    (a, b)
}

fn inc_ok(v: Res<u8>) -> Res<u8> {
    v.map(|v| v + 1)
}

fn log_push(log: &Arc<Mutex<Vec<String>>>, what: &str) {
    log.lock().unwrap().push(what.to_owned());
}

#[test]
fn one_step_no_handler_moves_values() {
    let drops = Arc::new(AtomicUsize::new(0));
    let (a, b) = join! {
        Token(1, drops.clone()),
        Token(2, drops.clone()),
    };
    assert_eq!((a.0, b.0), (1, 2));
    assert_eq!(drops.load(Ordering::SeqCst), 0);
    drop((a, b));
    assert_eq!(drops.load(Ordering::SeqCst), 2);

    let single = join! { Token(7, drops.clone()) };
    assert_eq!(single.0, 7);
    assert_eq!(drops.load(Ordering::SeqCst), 2);
    drop(single);
    assert_eq!(drops.load(Ordering::SeqCst), 3);

    // `let` names in the one and only step do not change the result.
    let (x, y) = join! {
        let mut first = vec![1u8] -> |mut v: Vec<u8>| { v.push(2); v } ~-> |v| v,
        let second = 3u8 -> |v| v + 1 ~-> { first.push(3); let n = first.len() as u8; move |v| v + n },
    };
    assert_eq!((x, y), (vec![1, 2, 3], 7));
}

#[test]
fn branches_of_different_depth_keep_positions() {
    let log = Arc::new(Mutex::new(Vec::new()));
    let (a, b, c) = join! {
        1u32 -> { let log = log.clone(); move |v| { log_push(&log, "a0"); v + 1 } }
            ~-> { let log = log.clone(); move |v| { log_push(&log, "a1"); v * 10 } }
            ~-> { let log = log.clone(); move |v| { log_push(&log, "a2"); v + 5 } },
        "b" -> { let log = log.clone(); move |v: &str| { log_push(&log, "b0"); v.to_owned() } },
        let c = 3u64 -> { let log = log.clone(); move |v| { log_push(&log, "c0"); v } }
            ~-> { let log = log.clone(); move |v| { log_push(&log, &format!("c1 sees {}", c)); v + 1 } },
    };
    assert_eq!((a, b.as_str(), c), (25, "b", 4));
    assert_eq!(
        *log.lock().unwrap(),
        vec!["a0", "b0", "c0", "a1", "c1 sees 3", "a2"]
    );
}

#[test]
fn inspect_helper_used_and_unused() {
    let seen = Arc::new(Mutex::new(Vec::new()));
    // No `??` in the outer macro, `??` in a nested one and inside a nested wrapper.
    let (a, b) = join! {
        join! { 2u8 ?? { let seen = seen.clone(); move |v: &u8| seen.lock().unwrap().push(*v) } } -> |v| v + 1,
        Some(4u8) |> >>> ?? { let seen = seen.clone(); move |v: &u8| seen.lock().unwrap().push(*v) } <<< |> |v| v * 2,
    };
    assert_eq!((a, b), (3, Some(8)));
    assert_eq!(*seen.lock().unwrap(), vec![2, 4]);

    let v = try_join! {
        Some(1u8) ~?? { let seen = seen.clone(); move |v: &Option<u8>| seen.lock().unwrap().push(v.unwrap() + 10) },
        Some(2u8),
        map => |a, b| a + b
    };
    assert_eq!(v, Some(3));
    assert_eq!(*seen.lock().unwrap(), vec![2, 4, 11]);
}

#[test]
fn try_first_failure_of_earliest_failing_step() {
    let log = Arc::new(Mutex::new(Vec::new()));
    let run = |fail1: bool, fail2: bool| -> Res<(u8, u8, u8)> {
        let log = log.clone();
        log.lock().unwrap().clear();
        try_join! {
            Ok::<_, String>(1u8) |> { let log = log.clone(); move |v| { log_push(&log, "a0"); v } }
                ~=> { let log = log.clone(); move |v| { log_push(&log, "a1"); Ok(v + 1) } },
            Ok::<_, String>(2u8) => { let log = log.clone(); move |v| { log_push(&log, "b0"); if fail1 { Err("b".to_owned()) } else { Ok(v) } } }
                ~|> { let log = log.clone(); move |v| { log_push(&log, "b1"); v + 1 } },
            Ok::<_, String>(3u8) => { let log = log.clone(); move |v| { log_push(&log, "c0"); if fail2 { Err("c".to_owned()) } else { Ok(v) } } }
                ~|> { let log = log.clone(); move |v| { log_push(&log, "c1"); v + 1 } }
                ~|> { let log = log.clone(); move |v| { log_push(&log, "c2"); v + 1 } },
        }
    };
    assert_eq!(run(false, false), Ok((2, 3, 5)));
    assert_eq!(
        *log.lock().unwrap(),
        vec!["a0", "b0", "c0", "a1", "b1", "c1", "c2"]
    );
    assert_eq!(run(true, true), Err("b".to_owned()));
    assert_eq!(*log.lock().unwrap(), vec!["a0", "b0", "c0"]);
    assert_eq!(run(false, true), Err("c".to_owned()));
    assert_eq!(*log.lock().unwrap(), vec!["a0", "b0", "c0"]);

    // `Option` flavour, failure in the second step of the last branch, handler not called.
    let called = AtomicUsize::new(0);
    let res = try_join! {
        Some(1u8),
        Some(2u8) ~=> |_| None::<u8>,
        Some(3u8) ~|> |v| v + 1 ~|> |_| -> u8 { unreachable!() },
        and_then => |a, b, c| { called.fetch_add(1, Ordering::SeqCst); Some(a + b + c) }
    };
    assert_eq!(res, None);
    assert_eq!(called.load(Ordering::SeqCst), 0);

    // Earlier-finished branches keep their values until the final transposition.
    let res: Res<(u8, String, u8)> = try_join! {
        Ok(1u8),
        Ok("x".to_owned()) ~|> |s: String| s + "y",
        Ok(3u8) ~|> |v| v + 1 ~|> |v| v + 1,
    };
    assert_eq!(res, Ok((1, "xy".to_owned(), 5)));
    let single: Res<u8> = try_join! { Ok(3u8) ~|> |v| v + 1 ~=> |v| Err::<u8, _>(v.to_string()) };
    assert_eq!(single, Err("4".to_owned()));
}

#[test]
fn spawn_threads_are_named_and_concurrent() {
    let run = || {
        let barrier = Arc::new(Barrier::new(3));
        let caller = std::thread::current().id();
        join_spawn! {
            0u8 -> { let barrier = barrier.clone(); move |_| { barrier.wait(); std::thread::current().name().unwrap().to_owned() } }
                ~-> move |name| (name, std::thread::current().id() == caller),
            1u8 -> { let barrier = barrier.clone(); move |_| { barrier.wait(); std::thread::current().name().unwrap().to_owned() } },
            2u8 -> { let barrier = barrier.clone(); move |_| { barrier.wait(); std::thread::current().name().unwrap().to_owned() } },
        }
    };
    let named = std::thread::Builder::new()
        .name("demo".to_owned())
        .spawn(run)
        .unwrap()
        .join()
        .unwrap();
    assert_eq!(
        named,
        (
            ("demo_join_0".to_owned(), true),
            "demo_join_1".to_owned(),
            "demo_join_2".to_owned()
        )
    );
    let unnamed = std::thread::spawn(run).join().unwrap();
    assert_eq!(
        unnamed,
        (
            ("join_0".to_owned(), true),
            "join_1".to_owned(),
            "join_2".to_owned()
        )
    );

    // Single branch: everything on the calling thread, no helper needed.
    let me = std::thread::current().id();
    let same = spawn! { 1u8 -> |_| std::thread::current().id() ~-> move |id| id == me };
    assert!(same);
}

#[test]
fn spawn_agrees_with_plain_and_reports_first_failure() {
    let plain: Res<u8> = try_join! {
        Ok::<_, String>(1u8) ~|> |v| v + 1,
        Err::<u8, _>("one".to_owned()) ~|> |v| v + 1,
        Err::<u8, _>("two".to_owned()),
        map => |a, b, c| a + b + c
    };
    let spawned: Res<u8> = try_join_spawn! {
        Ok::<_, String>(1u8) ~|> |v| v + 1,
        Err::<u8, _>("one".to_owned()) ~|> |v| v + 1,
        Err::<u8, _>("two".to_owned()),
        map => |a, b, c| a + b + c
    };
    let aliased: Res<u8> = try_spawn! {
        Ok::<_, String>(1u8) ~|> |v| v + 1,
        Err::<u8, _>("one".to_owned()) ~|> |v| v + 1,
        Err::<u8, _>("two".to_owned()),
        map => |a, b, c| a + b + c
    };
    assert_eq!(plain, Err("one".to_owned()));
    assert_eq!(spawned, plain);
    assert_eq!(aliased, plain);

    let sum = join_spawn! {
        { 1u8 } -> |v| v + 1 ~-> |v| v * 2,
        3u8 ?? |_| () ~-> |v| v + 1,
        then => |a, b| a + b
    };
    assert_eq!(sum, 8);

    let joined = join_spawn! {
        custom_joiner(pair_joiner)
        1u8 -> |v| v + 1,
        2u8 -> |v| v + 1,
    };
    assert_eq!(joined, (2, 3));
    assert_eq!(JOINER_CALLS.load(Ordering::SeqCst), 1);
}

#[test]
fn spawn_panic_reaches_the_caller() {
    let later = Arc::new(AtomicUsize::new(0));
    let later_in = later.clone();
    let res = std::panic::catch_unwind(move || {
        join_spawn! {
            1u8 -> |v| v + 1 ~-> { let later = later_in.clone(); move |v| { later.fetch_add(1, Ordering::SeqCst); v } },
            2u8 -> |_| -> u8 { panic!("boom") } ~-> |v| v + 1,
        }
    });
    assert!(res.is_err());
    assert_eq!(later.load(Ordering::SeqCst), 0);
}

#[test]
fn async_is_lazy_and_keeps_order() {
    let started = Arc::new(AtomicUsize::new(0));
    let started_in = started.clone();
    let fut = join_async! {
        { started_in.fetch_add(1, Ordering::SeqCst); ready(1u8) } |> |v| v + 1,
        ready(2u8) |> |v| v + 1 ~|> |v| v * 2 ~|> |v| v,
    };
    assert_eq!(started.load(Ordering::SeqCst), 0);
    assert_eq!(block_on(fut), (2, 6));
    assert_eq!(started.load(Ordering::SeqCst), 1);

    let single = join_async! { ready(5u8) |> |v| v + 1 };
    assert_eq!(block_on(single), 6);

    let handled = join_async! {
        ready(1u8),
        ready(2u8) ~|> |v| v + 1,
        then => |a, b| ready(a + b)
    };
    assert_eq!(block_on(handled), 4);
}

#[test]
fn try_async_results() {
    let ok = try_join_async! {
        ready(Ok::<_, String>(1u8)),
        ready(Ok::<_, String>(2u8)) ~|> inc_ok,
        ready(Ok::<_, String>(3u8)) ~|> inc_ok ~=> |v| ready(Ok(v + 1)),
    };
    assert_eq!(block_on(ok), Ok((1, 3, 5)));

    let all_last = try_join_async! {
        ready(Ok::<_, String>(1u8)) ~|> inc_ok,
        ready(Ok::<_, String>(2u8)) ~|> inc_ok,
    };
    assert_eq!(block_on(all_last), Ok((2, 3)));

    let single = try_join_async! { ready(Ok::<_, String>(1u8)) ~|> inc_ok };
    assert_eq!(block_on(single), Ok(2));

    let reached = Arc::new(AtomicUsize::new(0));
    let reached_in = reached.clone();
    let failed = try_join_async! {
        ready(Ok::<u8, String>(1u8)) ~|> { let reached = reached_in.clone(); move |v: Res<u8>| { reached.fetch_add(1, Ordering::SeqCst); v } },
        ready(Err::<u8, String>("bad".to_owned())) ~|> inc_ok,
        map => |a, b| a + b
    };
    assert_eq!(block_on(failed), Err("bad".to_owned()));
    assert_eq!(reached.load(Ordering::SeqCst), 0);
}

#[test]
fn async_spawn_variants() {
    let rt = tokio::runtime::Runtime::new().unwrap();
    rt.block_on(async {
        let single = join_async_spawn! { ready(1u8) |> |v| v + 1 ~|> |v| v + 1 };
        assert_eq!(single.await, 3);

        let pair = join_async_spawn! {
            ready(1u8) |> |v| v + 1,
            ready(2u8) |> |v| v + 1 ~|> |v| v + 1,
        };
        assert_eq!(pair.await, (2, 4));

        let alias = async_spawn! {
            ready(1u8) |> |v| v + 1,
            ready(2u8) |> |v| v + 1 ~|> |v| v + 1,
        };
        assert_eq!(alias.await, (2, 4));

        let tried = try_join_async_spawn! {
            ready(Ok::<_, String>(1u8)),
            ready(Ok::<_, String>(2u8)) ~|> inc_ok,
            and_then => |a, b| ready(Ok::<_, String>(a + b))
        };
        assert_eq!(tried.await, Ok(4));

        let failed = try_async_spawn! {
            ready(Ok::<u8, String>(1u8)) ~|> inc_ok,
            ready(Err::<u8, String>("bad".to_owned())),
        };
        assert_eq!(failed.await, Err("bad".to_owned()));
    });

    let panicked = rt.block_on(async {
        let fut = join_async_spawn! {
            ready(1u8) |> |v| v + 1,
            ready(2u8) |> |_| -> u8 { panic!("boom") },
        };
        std::panic::AssertUnwindSafe(fut).catch_unwind().await
    });
    assert!(panicked.is_err());
}

#[test]
fn nested_macros_with_many_branches() {
    let (a, b, c, d, e, f, g, h, i, j, k) = join_spawn! {
        0usize, 1usize, 2usize, 3usize, 4usize, 5usize, 6usize, 7usize, 8usize, 9usize,
        try_join! { Some(10usize), Some(1usize) ~|> |v| v + 1, map => |a, b| a + b } |> |v| v + 1,
    };
    assert_eq!(
        (a, b, c, d, e, f, g, h, i, j, k),
        (0, 1, 2, 3, 4, 5, 6, 7, 8, 9, Some(13))
    );
}
