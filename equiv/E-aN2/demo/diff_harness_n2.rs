// Scratch differential harness (not part of the deliverable).
use join_impl::{generate_join, Config, JoinInputDefault};
use std::{fmt::Write as _, panic};

struct Rng(u64);
impl Rng {
    fn next(&mut self) -> u64 {
        self.0 = self.0.wrapping_mul(6364136223846793005).wrapping_add(1442695040888963407);
        self.0 >> 33
    }
    fn pick<'a>(&mut self, v: &[&'a str]) -> &'a str {
        v[(self.next() % v.len() as u64) as usize]
    }
}

const OPS: &[&str] = &[
    "|>", "=>", "?>", "..", ">.", "->", "<|", "<=", "!>", "=>[]", "=> []", "=>[ ]", "= >", ">@>", "?|>@", "?|>", "|n>",
    "?&!>", "^^>", "^@", "?^@", "?@", ">^>", "<->", "??", "<<<", ">>>", "~", "~", "~", ",", ",", "| >", "< |", "- >",
    ". .", "> .", "=>[1]", "=> [f, g][0]", "|m>", "| n >", "< - >", "<-", "? ?", "<< <", "> >>", ">>", "<<", "~~", "=",
    ">", "<", "|", "?", "!", "^", "@", "&", "-", ".", ";", "'a", "'", "#",
];
const OPERANDS: &[&str] = &[
    "a", "Some(1)", "Ok::<_, ()>(2)", "|v| v + 1", "|v| Ok(v)", "{ b }", "{ let x = 1; x }", "f(x, y)", "vec![1, 2]",
    "0, |a, b| a + b", "Vec<_>", "A, B, Vec<_>, Vec<_>", "map", "then", "and_then", "n", "let x = Some(1)",
    "let mut y = Ok(2)", "let (p, q) = z", "x.y", "(1, 2)", "[1, 2]", "match v { 1 => 2, _ => 3 }", "async { 1 }",
    "move |v| v", "&v", "-1", "!b", "a < b", "a > b", "a <= b", "x as u8", "1..2", "..", "return", "break",
    "if a { b } else { c }", "r#try", "\"s\"", "'c'", "1.5", "a::b::<C>", "<A as B>::c", "|| 1", "|_| ()", "()",
    "map => |a| a", "then => |a, b| b", "and_then => f", "map => f,", "lazy_branches(true)", "custom_joiner(j)",
    "transpose_results(false)", "futures_crate_path(::fut)", "lazy_branches(maybe)", "",
];

fn gen(rng: &mut Rng) -> String {
    let mut s = String::new();
    let len = 1 + rng.next() % 14;
    for _ in 0..len {
        let r = rng.next() % 10;
        if r < 5 {
            s.push_str(rng.pick(OPS));
        } else {
            s.push_str(rng.pick(OPERANDS));
        }
        if rng.next() % 5 != 0 {
            s.push(' ');
        }
    }
    s
}

const GOOD_OPS: &[&str] = &[
    "|>", "=>", "?>", "..", ">.", "->", "<|", "<=", "!>", "=>[]", ">@>", "?|>@", "?|>", "?&!>", "?@", ">^>", "??",
    "~|>", "~=>", "~->", "~??", "~<|", "~ <=", "|> >>>", "=> >>>", "~?> >>>", "?? >>>", "<= >>>", "!> >>>", "-> >>>",
];
const UNARY_OPS: &[&str] = &["^^>", "|n>", "<<<", "~^^>", "=>[]", "<->", "~|n>", "=>[] Vec<_>", "<-> A, B, Vec<_>, Vec<_>", "^^>"];
const GOOD_OPERANDS: &[&str] = &[
    "a", "Some(1)", "Ok::<_, ()>(2)", "|v| v + 1", "|v| Ok(v)", "{ b }", "f(x, y)", "vec![1, 2]", "map", "n",
    "match v { 1 => 2, _ => 3 }", "move |v| v", "&v", "-1", "a::b::<C>", "|| 1", "[f, g][0]", "(a <= b)", "x.y(|z| z > 1)",
    "|a, b| a | b",
];

fn gen_structured(rng: &mut Rng) -> String {
    let mut s = String::new();
    let branches = 1 + rng.next() % 3;
    for b in 0..branches {
        if rng.next() % 4 == 0 {
            s.push_str(rng.pick(&["let x = ", "let mut y = ", "let x = ", "let mut y = ", "let x = ", "let mut y = ", "let _ = ", "let Some(z) = "]));
        }
        s.push_str(rng.pick(GOOD_OPERANDS));
        let len = rng.next() % 7;
        for _ in 0..len {
            s.push(' ');
            match rng.next() % 10 {
                0 | 1 => s.push_str(rng.pick(UNARY_OPS)),
                2 => {
                    s.push_str(rng.pick(&["^@ ", "?^@ ", "~^@ "]));
                    s.push_str(rng.pick(GOOD_OPERANDS));
                    s.push_str(", ");
                    s.push_str(rng.pick(GOOD_OPERANDS));
                }
                _ => {
                    let op = rng.pick(GOOD_OPS);
                    s.push_str(op);
                    s.push(' ');
                    if op.ends_with(">>>") {
                        if rng.next() % 12 == 0 {
                            s.push_str(rng.pick(GOOD_OPERANDS));
                        }
                    } else if rng.next() % 12 != 0 {
                        s.push_str(rng.pick(GOOD_OPERANDS));
                    }
                }
            }
        }
        if b + 1 < branches || rng.next() % 3 == 0 {
            s.push_str(rng.pick(&[", ", ", ", ", ", " ", ",, "]));
        }
    }
    if rng.next() % 3 == 0 {
        s.push_str(rng.pick(&["map => f", "then => |a, b| a", "and_then => g,", "map => f, then => g", "map = > f"]));
    }
    s
}

fn run(input: &str) -> String {
    let parsed = match syn::parse_str::<JoinInputDefault>(input) {
        Ok(p) => p,
        Err(e) => return format!("PARSE-ERR {}", e),
    };
    let mut out = String::new();
    for &(is_async, is_try, is_spawn) in &[(false, false, false), (true, true, false), (false, true, true)] {
        let res = panic::catch_unwind(panic::AssertUnwindSafe(|| {
            generate_join(&parsed, Config { is_async, is_try, is_spawn }).to_string()
        }));
        match res {
            Ok(t) => write!(out, " | OK {}", t).unwrap(),
            Err(e) => write!(
                out,
                " | GEN-PANIC {}",
                e.downcast_ref::<String>().cloned().or_else(|| e.downcast_ref::<&str>().map(|s| s.to_string())).unwrap_or_default()
            )
            .unwrap(),
        }
    }
    out
}

#[test]
fn dump() {
    panic::set_hook(Box::new(|_| {}));
    let mut rng = Rng(std::env::var("DIFF_N2_SEED").ok().and_then(|s| s.parse().ok()).unwrap_or(0x5eed_1234));
    let mut out = String::new();
    let mut ok = 0;
    let fixed = [
        "a ~", "a ~ b", "a ~ ~|> f", "a |> ~ f", "~ a", "a , , b", "a |> >>> <<< <<<", "a <<<", "a |> >>> >>>", "a -> >>> f",
        "a <<< >>>", "a =>[] >>> b", "a ^@ 1, f, g", "a ^@ 1", "a ^@ 1 |> f, g", "a <-> A, B", "a <-> A, B, C, D |> f",
        "a ^^> b", "a |n> b", "a ^^> |n> ^^>", "a |> >>> |> f ~|> g <<< |> h", "let a = b, let c = d ~|> { a }",
        "a |> f map => g", "a |> { f } map => g", "a |> { f } b", "a b", "a |> f; b", "map => f", "a, map => f, then => g",
        "a, map => f b", "lazy_branches(true) transpose_results(true) custom_joiner(j) futures_crate_path(p) lazy_branches(true), 1",
        "lazy_branches(true) lazy_branches(true) a", "custom_joiner(j) a", "futures_crate_path(::f) custom_joiner(j) transpose_results(false) lazy_branches(false) a, b",
        "a => [f, g][0]", "a =>[] Vec<_>", "a => [] Vec<_>", "a =>\n[]", "a = > f", "a ?|>@ f ?|> g ?|> @ h", "a ?| >@ f",
        "'a: loop { } |> f", "a |> |v: &'a u8| v ~=> g", "a |> 'x' |> g",
    ];
    let inputs: Vec<String> = fixed.iter().map(|s| s.to_string()).chain((0..60000).map(|i| if i % 2 == 0 { gen(&mut rng) } else { gen_structured(&mut rng) })).collect();
    for input in inputs {
        let res = run(&input);
        if !res.starts_with("PARSE-ERR") {
            ok += 1;
        }
        writeln!(out, "{:?} => {}", input, res).unwrap();
    }
    let path = std::env::var("DIFF_N2_OUT").unwrap_or_else(|_| "/tmp/wt_N2/OUT/diff_dump.txt".into());
    std::fs::write(&path, out).unwrap();
    eprintln!("parsed ok: {}", ok);
}

fn wrap_none(ts: proc_macro2::TokenStream, rng: &mut Rng) -> proc_macro2::TokenStream {
    use proc_macro2::{Delimiter, Group, TokenStream, TokenTree};
    let tts: Vec<TokenTree> = ts.into_iter().collect();
    let mut out = TokenStream::new();
    let mut i = 0;
    while i < tts.len() {
        if rng.next() % 4 == 0 {
            let n = 1 + (rng.next() % 3) as usize;
            let end = (i + n).min(tts.len());
            let inner: TokenStream = tts[i..end].iter().cloned().collect();
            out.extend(std::iter::once(TokenTree::Group(Group::new(Delimiter::None, inner))));
            i = end;
        } else {
            out.extend(std::iter::once(tts[i].clone()));
            i += 1;
        }
    }
    out
}

#[test]
fn dump_none() {
    panic::set_hook(Box::new(|_| {}));
    let mut rng = Rng(std::env::var("DIFF_N2_SEED").ok().and_then(|s| s.parse().ok()).unwrap_or(0xabcdef));
    let mut out = String::new();
    let mut ok = 0;
    for i in 0..30000 {
        let src = if i % 3 == 0 { gen(&mut rng) } else { gen_structured(&mut rng) };
        let ts: proc_macro2::TokenStream = match src.parse() {
            Ok(ts) => ts,
            Err(_) => continue,
        };
        let ts = wrap_none(ts, &mut rng);
        let shown = format!("{:?}", ts.to_string());
        let res = match syn::parse2::<JoinInputDefault>(ts) {
            Ok(parsed) => {
                ok += 1;
                let r = panic::catch_unwind(panic::AssertUnwindSafe(|| {
                    generate_join(&parsed, Config { is_async: false, is_try: true, is_spawn: false }).to_string()
                }));
                match r {
                    Ok(t) => format!("OK {}", t),
                    Err(_) => "GEN-PANIC".to_string(),
                }
            }
            Err(e) => format!("PARSE-ERR {}", e),
        };
        writeln!(out, "{} [{}] => {}", shown, i, res).unwrap();
    }
    let path = std::env::var("DIFF_N2_OUT").unwrap_or_else(|_| "/tmp/wt_N2/OUT/diff_dump.txt".into()) + ".none";
    std::fs::write(&path, out).unwrap();
    eprintln!("none-group parsed ok: {}", ok);
}
