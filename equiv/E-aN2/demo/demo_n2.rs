//!
//! Extra parser-oriented tests: every test feeds the macros with input which is hard to split
//! into operands and operators (overlapping operators, operator-like tokens inside operands,
//! wrappers, deferred markers, `let` names, handlers, separators).
//!
#![allow(clippy::unnecessary_wraps, clippy::redundant_closure, unused_mut)]

use futures::executor::block_on;
use join::{
    join, join_async, join_spawn, try_join, try_join_async, try_join_spawn, try_spawn,
};

type R<T> = Result<T, String>;

fn ok<T>(v: T) -> R<T> {
    Ok(v)
}

fn add_one(v: u32) -> u32 {
    v + 1
}

#[test]
fn every_operator_is_found_in_one_chain() {
    // `|>` `..` `>.` `->` `?>` `??` on an Option.
    let seen = std::cell::RefCell::new(Vec::new());
    let value = join! {
        Some(1u32)
            |> add_one
            ..map(|v| v * 10)
            >.map(|v| v + 1)
            ?> |v| *v > 20
            ?? |v: &Option<u32>| seen.borrow_mut().push(*v)
            -> |v: Option<u32>| v.unwrap_or(0)
    };
    assert_eq!(value, 21);
    assert_eq!(seen.into_inner(), vec![Some(21)]);

    // `=>` `<|` `<=` `!>` on a Result.
    let value: R<u32> = join! {
        ok(1u32)
            => |v| Err::<u32, String>(format!("e{}", v))
            !> |e| e + "!"
            <= |e: String| if e == "e1!" { Ok(7) } else { Err(e) }
            => |v| Err::<u32, String>(v.to_string())
            <| Ok(9)
    };
    assert_eq!(value, Ok(9));

    // Iterator operators.
    let value = join! {
        vec![1u32, 2, 3, 4, 5, 6].into_iter()
            >@> vec![7u32, 8].into_iter()
            ?|> |v| if v % 2 == 0 { Some(v / 2) } else { None }
            |n>
            |> |(i, v)| vec![i as u32, v]
            ^^>
            =>[] Vec<u32>
    };
    assert_eq!(value, vec![0, 1, 1, 2, 2, 3, 3, 4]);

    let (even, odd): (Vec<u32>, Vec<u32>) = join! { (1u32..7) ?&!> |v| v % 2 == 0 };
    assert_eq!((even, odd), (vec![2, 4, 6], vec![1, 3, 5]));

    assert_eq!(join! { (1u32..5) ^@ 10, |acc, v| acc + v }, 20);
    assert_eq!(
        join! { vec![1u32, 2, 3].into_iter() ?^@ 0u32, |acc, v| if v < 3 { Some(acc + v) } else { None } },
        None
    );
    assert_eq!(join! { (1u32..9) ?@ |v| v % 4 == 0 }, Some(4));
    assert_eq!(
        join! { vec!["a", "7", "8"].into_iter() ?|>@ |v| v.parse::<u32>().ok() },
        Some(7)
    );
    let (left, right): (Vec<u32>, Vec<char>) =
        join! { (1u32..3) >^> vec!['a', 'b'].into_iter() <-> u32, char, Vec<u32>, Vec<char> };
    assert_eq!((left, right), (vec![1, 2], vec!['a', 'b']));
    let (left, right): (Vec<u32>, Vec<char>) =
        join! { (1u32..3) >^> vec!['a', 'b'].into_iter() <-> };
    assert_eq!((left, right), (vec![1, 2], vec!['a', 'b']));
}

#[test]
fn overlapping_operators_pick_the_longest() {
    // `=>[]` (collect) against `=>` followed by an array operand.
    let collected: Vec<u32> = join! { (1u32..4) =>[] };
    assert_eq!(collected, vec![1, 2, 3]);
    let collected = join! { (1u32..4) =>[] Vec<_> -> |v: Vec<u32>| v.len() };
    assert_eq!(collected, 3);
    let picked = join! { Some(2u32) => [|v| Some(v + 1), |v| Some(v + 2)][1] };
    assert_eq!(picked, Some(4));

    // `?|>@` against `?|>`, `?>`, `??` and `?@`.
    let found = join! { (1u32..9) ?|> |v| Some(v * 2) ?|>@ |v| if v > 4 { Some(v) } else { None } };
    assert_eq!(found, Some(6));
    let found = join! { (1u32..9) ?> |v| v % 2 == 1 ?? |_| () ?@ |v| *v > 3 };
    assert_eq!(found, Some(5));

    // `<|`, `<=`, `<<<`, `<->` start with the same token.
    let value: R<u32> = join! {
        Err::<u32, String>("a".into()) <= >>> ..len() -> |l: usize| Err::<u32, String>(l.to_string()) <<< <| Ok(3)
    };
    assert_eq!(value, Ok(3));

    // `>.`, `>@>`, `>^>`, `>>>` start with the same token.
    let value = join! {
        Some(vec![1u32, 2]) |> >>> ..into_iter() >@> vec![3u32].into_iter() >^> vec![4u32, 5, 6].into_iter() >.map(|(a, b)| a * b) =>[] Vec<u32> <<< ..unwrap()
    };
    assert_eq!(value, vec![4, 10, 18]);

    // `^^>` against `^@`, `|n>` against `|>`.
    let value = join! { vec![vec![1u32], vec![2, 3]].into_iter() ^^> |n> ^@ 0u32, |acc, (i, v)| acc + (i as u32) * v };
    assert_eq!(value, 8);
}

#[test]
fn operator_like_tokens_inside_operands_are_left_alone() {
    // Closures with `|`, generics with `<`/`>`/`,`, match arms with `=>`, ranges with `..`,
    // comparison / shift operators inside delimiters.
    let value = try_join! {
        Ok::<_, String>(2u32) |> |v| { let w: Vec<u32> = (0..v).collect::<Vec<_>>(); w.len() as u32 } => |v| match v { 2 => Ok::<u32, String>(v << 1), _ => Err("x".to_string()) },
        Ok::<Vec<(u32, u32)>, String>(vec![(1, 2)]) |> |v| v.into_iter().map(|(a, b)| (a <= b, a >> 1 | b)).collect::<Vec<(bool, u32)>>(),
        ok(5u32) ?? |v| assert!(v.is_ok() || v.is_err()) |> |v| if v > 1 && (v < 9) { -(v as i64) } else { 0 },
        map => |a, b, c| (a, b, c)
    };
    assert_eq!(value, Ok((4, vec![(true, 2)], -5)));

    // An operand which starts with a unary operator / reference / lifetime-bearing closure.
    let base = 3u32;
    let value = join! {
        Some(&base) |> |v: &u32| *v + 1 |> |v| !(v == 0) -> |v: Option<bool>| v == Some(true),
        Some(-1i32) |> |v: i32| -v,
        then => |a, b| (a, b)
    };
    assert_eq!(value, (true, Some(1)));
}

#[test]
fn wrappers_close_explicitly_and_implicitly() {
    let value = try_join! {
        ok(ok(Some(2u32)))
        => >>>
            => >>>
                |> |v| v + 2
                ..ok_or_else(|| "none".to_string())
            <<<
            |> |v| ok(v + 5)
        <<<
        |> |v| v.map(|v| v * 2)
    };
    assert_eq!(value, Ok(Ok(18)));

    // Left open at the end of the branch and at the end of a step.
    let value = join! {
        Some(Some(1u32)) |> >>> |> |v| v + 1,
        Some(Some(1u32)) |> >>> |> add_one ~|> >>> |> |v| v + 10
    };
    assert_eq!(value, (Some(Some(2)), Some(Some(12))));

    for (input, expected) in vec![(Some(4u32), Some(4u32)), (Some(5), None), (None, None)] {
        let value = join! { input ?> >>> -> |v: &u32| *v % 2 == 0 <<< };
        assert_eq!(value, expected);
    }
}

#[test]
fn deferred_markers_let_names_and_captures() {
    let mut log = Vec::new();
    let value = try_join! {
        let first = ok(1u32) ~|> { log.push("b0"); let f = first.as_ref().ok().cloned(); move |v| v + f.unwrap_or(100) } ~=> |v| ok(v * 3),
        let mut second = ok(10u32) |> add_one ~=> { log.push("b1"); let s = second.clone(); move |v| s.map(|s| s + v) },
        ok(7u32) ~?? { log.push("b2"); |_: &R<u32>| () },
        and_then => |a, b, c| ok((a, b, c))
    };
    assert_eq!(value, Ok((6, 22, 7)));
    assert_eq!(log, vec!["b0", "b1", "b2"]);

    // A failure in the first step: nothing of the second step is evaluated.
    let mut touched = false;
    let value: R<(u32, u32)> = try_join! {
        ok(1u32) => |_| Err::<u32, String>("first".into()) ~|> { touched = true; |v| v },
        Err::<u32, String>("second".into()) ~|> |v| v + 1
    };
    assert_eq!(value, Err("first".to_string()));
    assert!(!touched);
}

#[test]
fn separators_and_handlers() {
    // No comma after a block, trailing comma, handler with and without trailing comma.
    let value = join! {
        Some(2u32) |> |v| { v + 1 },
        Some(3u32),
        Some(1u32) |> { |v| v + 1 }
        then => |a: Option<u32>, b: Option<u32>, c: Option<u32>| a.unwrap() + b.unwrap() + c.unwrap(),
    };
    assert_eq!(value, 8);

    let value = try_join! { Some(1u32), Some(2u32) |> { add_one } map => |a, b| a + b };
    assert_eq!(value, Some(4));
    let value = try_join! { Some(1u32), Some(2u32), map => |a, b| a + b };
    assert_eq!(value, Some(3));
    let value = try_join! { Some(1u32), Some(2u32) |> { add_one }, };
    assert_eq!(value, Some((1, 3)));

    // Identifiers named like handlers / options are ordinary operands unless followed by `=>`.
    let map = Some(1u32);
    let then = |v: u32| v + 1;
    let n = 3u32;
    let value = join! { map |> then |> |v| v + n, vec![n].into_iter() |n> ..next() };
    assert_eq!(value, (Some(5), Some((0, 3))));
}

#[test]
fn options_in_any_order() {
    fn pair<A, B>(a: A, b: B) -> (A, B) {
        (a, b)
    }
    fn lazy_pair<A, B>(a: impl FnOnce() -> R<A>, b: impl FnOnce() -> R<B>) -> R<(A, B)> {
        a().and_then(|a| b().map(|b| (a, b)))
    }
    let value = join! {
        lazy_branches(false)
        custom_joiner(pair)
        Some(1u32) |> add_one,
        Some(2u32) ~|> add_one
    };
    assert_eq!(value, (Some(2), Some(3)));

    let value = try_join! {
        custom_joiner(lazy_pair)
        transpose_results(false)
        lazy_branches(true)
        ok(1u32) |> add_one,
        ok(2u32)
    };
    assert_eq!(value, Ok((2, 2)));
}

#[test]
fn spawn_and_async_variants_agree() {
    let sync = try_join! {
        ok(1u32) |> add_one ~=> |v| ok(v * 2) <| Ok(0),
        ok(vec![1u32, 2, 3]) => >>> ..into_iter() ?> |v| v % 2 == 1 =>[] Vec<u32> -> ok <<< ~|> |v| v.len(),
        map => |a, b| a as usize + b
    };
    let spawned = try_join_spawn! {
        ok(1u32) |> add_one ~=> |v| ok(v * 2) <| Ok(0),
        ok(vec![1u32, 2, 3]) => >>> ..into_iter() ?> |v| v % 2 == 1 =>[] Vec<u32> -> ok <<< ~|> |v| v.len(),
        map => |a, b| a as usize + b
    };
    let aliased = try_spawn! {
        ok(1u32) |> add_one ~=> |v| ok(v * 2) <| Ok(0),
        ok(vec![1u32, 2, 3]) => >>> ..into_iter() ?> |v| v % 2 == 1 =>[] Vec<u32> -> ok <<< ~|> |v| v.len(),
        map => |a, b| a as usize + b
    };
    assert_eq!(sync, Ok(6));
    assert_eq!(spawned, sync);
    assert_eq!(aliased, sync);

    let value = join_spawn! { Some(1u32) |> add_one ~|> add_one, Some(5u32) ?> |v| *v > 9 };
    assert_eq!(value, (Some(3), None));

    let value = block_on(async {
        try_join_async! {
            futures::future::ok::<u32, String>(1) |> |v| v.map(add_one) ~=> |v| futures::future::ok(v * 2),
            futures::future::ready(ok(4u32)) => |v| async move { ok(v + 1) } <= |e: String| futures::future::err(e),
            and_then => |a, b| futures::future::ok::<_, String>(a + b)
        }
        .await
    });
    assert_eq!(value, Ok(9));

    let value = block_on(async {
        join_async! {
            futures::future::ready(2u32) |> add_one,
            futures::future::ready(Some(4u32)) |> >>> ?> |v| *v > 9 <<< ~|> |v| v.is_none(),
            then => |a, b| futures::future::ready((a, b))
        }
        .await
    });
    assert_eq!(value, (3, true));
}
