//!
//! Extra tests for step bookkeeping (steps split at `~`, active branches per step),
//! hoisted block operands and the `>>>` / `<<<` wrapper stack.
//!

#[cfg(test)]
mod demo_n6 {
    use std::cell::RefCell;
    use std::sync::{Arc, Mutex};
    use std::thread;

    use futures::executor::block_on;
    use futures::future::{ok, ready};
    use join::*;

    #[test]
    fn wrappers_close_explicitly_and_continue_on_outer_value() {
        // Three levels, two of them closed explicitly, operators after `<<<` see the outer value.
        let value = join! {
            Some(Some(Some(Some(1u32))))
            |> >>>
                |> >>>
                    |> >>>
                        |> |v| v + 1
                    <<<
                    |> |v: Option<u32>| v.map(|v| v * 10)
                <<<
                |> |v: Option<Option<u32>>| v.map(|v| v.map(|v| v + 3))
            <<<
            |> |v: Option<Option<Option<u32>>>| v.unwrap().unwrap().unwrap()
        };
        assert_eq!(value, Some(23));

        // Sibling wrappers on the same level, every one of the wrapper capable operators.
        let value = try_join! {
            Ok::<_, u8>(Some(4u32))
            |> >>> ?> >>> -> |v: &u32| *v > 2 <<< <<<
            => >>> ..ok_or(7u8) <<<
            !> >>> -> |e: u8| e + 1 <<<
            <= >>> -> |e: u8| Err::<u32, u8>(e) <<<
            ?? >>> -> |v: &Result<u32, u8>| assert!(v.is_ok()) <<<
            |> |v| v + 1
        };
        assert_eq!(value, Ok(5));

        let value = join! {
            vec![1u8, 2, 3, 4, 5, 6].into_iter()
            ?|> >>> -> |v| if v % 2 == 0 { Some(v) } else { None } <<<
            ?&!> >>> -> |v: &u8| *v > 2 <<<
        };
        let (big, small): (Vec<u8>, Vec<u8>) = value;
        assert_eq!((big, small), (vec![4, 6], vec![2]));

        let value = join! {
            vec![1u8, 2, 3, 4].into_iter() ?@ >>> -> |v: &u8| *v > 2 <<<,
            vec![1u8, 2, 3, 4].into_iter() ?|>@ >>> -> |v| if v > 1 { Some(v * 2) } else { None } <<<
        };
        assert_eq!(value, (Some(3), Some(4)));
    }

    #[test]
    fn wrappers_close_implicitly_at_step_end() {
        // All three wrappers are still open when the step ends; the next step gets the outer value.
        let value = try_join! {
            Some(Some(Some(Some(2u16))))
            => >>>
                => >>>
                    => >>>
                        |> |v| v + 1
            ~|> |v| v * 2,
            Some(1u16) ~|> |v| v + 1
        };
        assert_eq!(value, Some((6, 2)));

        // One closed explicitly, one implicitly, deferred wrapper at the start of every later step.
        let value = join! {
            Some(Some(Some(1u8)))
            |> >>> |> >>> |> |v| v + 1 <<< |> |v: Option<u8>| v
            ~|> >>> |> >>> |> |v| v + 10
            ~|> >>> |> >>> |> |v| v + 100 <<< <<<
            |> |v: Option<Option<u8>>| v.unwrap().unwrap(),
            Some(0u8)
        };
        assert_eq!(value, (Some(112), Some(0)));
    }

    #[test]
    fn block_operands_are_hoisted_per_step_in_branch_then_position_order() {
        let log = RefCell::new(Vec::<String>::new());
        let note = |what: &str| log.borrow_mut().push(what.to_owned());

        let value = join! {
            { note("b0 initial"); Some(Some(1u32)) }
            |> >>>
                |> { note("b0 s0 inner"); |v| { note("b0 s0 run inner"); v + 1 } }
            <<<
            |> { note("b0 s0 outer"); |v: Option<u32>| { note("b0 s0 run outer"); v } }
            ~|> >>>
                |> { note("b0 s1 inner"); |v| { note("b0 s1 run inner"); v + 1 } }
            ~|> { note("b0 s2"); |v: Option<u32>| { note("b0 s2 run"); v.unwrap() } },
            { note("b1 initial"); vec![1u32, 2, 3].into_iter() }
            ^@ { note("b1 s0 init"); 10u32 }, { note("b1 s0 fn"); |acc, v| acc + v }
            ~-> { note("b1 s1"); |v: u32| { note("b1 s1 run"); v * 2 } }
        };
        assert_eq!(value, (Some(3), 32));
        assert_eq!(
            *log.borrow(),
            vec![
                "b0 initial",
                "b0 s0 inner",
                "b0 s0 outer",
                "b1 initial",
                "b1 s0 init",
                "b1 s0 fn",
                "b0 s0 run inner",
                "b0 s0 run outer",
                "b0 s1 inner",
                "b1 s1",
                "b0 s1 run inner",
                "b1 s1 run",
                "b0 s2",
                "b0 s2 run",
            ]
        );
    }

    #[test]
    fn try_steps_report_lowest_failing_branch_and_stop() {
        let log = RefCell::new(Vec::<&'static str>::new());

        // Branch 1 is finished after step 0, branches 2 and 3 fail in step 1.
        let value: Result<(u8, u8, u8, u8), &'static str> = try_join! {
            Ok::<u8, &'static str>(1) ~|> |v| { log.borrow_mut().push("b0 s1"); v + 1 } ~|> |_| unreachable!(),
            Ok::<u8, &'static str>(2),
            Ok::<u8, &'static str>(3) ~=> |_| { log.borrow_mut().push("b2 s1"); Err::<u8, _>("b2") } ~|> |v: u8| -> u8 { unreachable!("{}", v) },
            Ok::<u8, &'static str>(4) ~=> |_| { log.borrow_mut().push("b3 s1"); Err::<u8, _>("b3") },
            map => |a: u8, b: u8, c: u8, d: u8| -> (u8, u8, u8, u8) { unreachable!("{:?}", (a, b, c, d)) }
        };
        assert_eq!(value, Err("b2"));
        assert_eq!(*log.borrow(), vec!["b0 s1", "b2 s1", "b3 s1"]);

        // `Option` flavour, the only failing branch is the last active one of step 2.
        let value = try_join! {
            Some(1u8) ~|> |v| v + 1,
            Some(2u8),
            Some(3u8) ~|> |v| v + 1 ~=> |_| None::<u8> ~|> |_| unreachable!(),
            Some(4u8) ~|> |v| v + 1 ~|> |v| v + 1 ~|> |v| v + 1
        };
        assert_eq!(value, None);

        // Everything succeeds: finished branches keep their values until the end.
        let value = try_join! {
            Some(1u8) ~|> |v| v + 1,
            Some(2u8),
            Some(3u8) ~|> |v| v + 1 ~=> |v| Some(v + 1) ~|> |v| v + 1,
            Some(4u8) ~|> |v| v + 1 ~|> |v| v + 1,
            and_then => |a, b, c, d| Some([a, b, c, d])
        };
        assert_eq!(value, Some([2, 2, 6, 6]));

        // Failure in the very last step and in the very first one.
        let value = try_join! {
            Ok::<u8, u8>(1) ~|> |v| v + 1 ~=> |v| Err::<u8, u8>(v),
            Err::<u8, u8>(9) <= |_| Ok(3) ~|> |v| v + 1
        };
        assert_eq!(value, Err(2));
        let value = try_join! {
            Ok::<u8, u8>(1) ~|> |_| unreachable!(),
            Err::<u8, u8>(9) ~|> |_| unreachable!(),
            Err::<u8, u8>(8)
        };
        assert_eq!(value, Err(9));
    }

    #[test]
    fn let_names_are_visible_in_later_steps() {
        let value = try_join! {
            let first = Ok::<u32, ()>(1) ~|> |v| v + 1,
            let mut second = Ok::<u32, ()>(10),
            Ok::<u32, ()>(100)
                ~|> { let first = *first.as_ref().unwrap(); move |v| v + first }
                ~|> { let first = *first.as_ref().unwrap(); let second = second.as_mut().map(|v| { *v += 1; *v }).unwrap(); move |v| v + first + second }
        };
        assert_eq!(value, Ok((2, 11, 114)));
    }

    #[test]
    fn many_branches_and_steps() {
        let counter = RefCell::new(0u32);
        let next = || {
            *counter.borrow_mut() += 1;
            *counter.borrow()
        };
        let value = join! {
            0u32, 1u32, 2u32, 3u32, 4u32, 5u32, 6u32, 7u32, 8u32, 9u32,
            10u32 -> { let n = next(); move |v| v + n } ~-> { let n = next(); move |v| v + n },
            Some(11u32)
                |> |v| v |> |v| v |> |v| v |> |v| v |> |v| v |> |v| v |> |v| v |> |v| v |> |v| v |> |v| v
                |> { let n = next(); move |v| v + n }
                ~|> >>> -> { let n = next(); move |v| v + n } <<< ..unwrap()
        };
        assert_eq!(
            value,
            (0, 1, 2, 3, 4, 5, 6, 7, 8, 9, 10 + 1 + 3, 11 + 2 + 4)
        );
    }

    #[test]
    fn custom_joiner_sees_only_active_branches() {
        let calls = RefCell::new(Vec::<Vec<u8>>::new());
        let joiner2 = |a: u8, b: u8| {
            calls.borrow_mut().push(vec![a, b]);
            (a, b)
        };
        let joiner3 = |a: u8, b: u8, c: u8| {
            calls.borrow_mut().push(vec![a, b, c]);
            (a, b, c)
        };
        let joiner4 = |a: u8, b: u8, c: u8, d: u8| {
            calls.borrow_mut().push(vec![a, b, c, d]);
            (a, b, c, d)
        };
        macro_rules! joiner {
            ($a:expr, $b:expr) => {
                joiner2($a, $b)
            };
            ($a:expr, $b:expr, $c:expr) => {
                joiner3($a, $b, $c)
            };
            ($a:expr, $b:expr, $c:expr, $d:expr) => {
                joiner4($a, $b, $c, $d)
            };
        }
        let value = join! {
            custom_joiner(joiner!)
            1u8 ~-> |v| v + 1 ~-> |v| v + 1 ~-> |v| v + 1,
            2u8,
            3u8 ~-> |v| v + 1 ~-> |v| v + 1,
            4u8 ~-> |v| v + 1,
            then => |a, b, c, d| [a, b, c, d]
        };
        assert_eq!(value, [4, 2, 5, 5]);
        // One call per step with more than one active branch, with exactly those branches.
        assert_eq!(
            *calls.borrow(),
            vec![vec![1, 2, 3, 4], vec![2, 4, 5], vec![3, 5]]
        );
    }

    #[test]
    fn spawned_steps_use_one_named_thread_per_active_branch() {
        let names = Arc::new(Mutex::new(Vec::<(u8, usize, String)>::new()));
        let note = |branch: u8, step: usize| {
            let names = names.clone();
            move || {
                names.lock().unwrap().push((
                    branch,
                    step,
                    thread::current().name().unwrap_or("<unnamed>").to_owned(),
                ));
            }
        };
        let caller = thread::Builder::new()
            .name("caller".into())
            .spawn({
                let (n00, n01, n02) = (note(0, 0), note(0, 1), note(0, 2));
                let n10 = note(1, 0);
                let (n20, n21) = (note(2, 0), note(2, 1));
                move || {
                    try_join_spawn! {
                        Ok::<u8, ()>(1) |> move |v| { n00(); v } ~|> move |v| { n01(); v + 1 } ~|> move |v| { n02(); v + 1 },
                        Ok::<u8, ()>(2) |> move |v| { n10(); v },
                        Ok::<u8, ()>(3) |> move |v| { n20(); v } ~=> >>> -> move |v| { n21(); Ok(v + 1) } <<<
                    }
                }
            })
            .unwrap();
        assert_eq!(caller.join().unwrap(), Ok((3, 2, 4)));

        let mut names = names.lock().unwrap().clone();
        names.sort();
        let names: Vec<_> = names
            .iter()
            .map(|(branch, step, name)| (*branch, *step, name.as_str()))
            .collect();
        assert_eq!(
            names,
            vec![
                (0, 0, "caller_join_0"),
                (0, 1, "caller_join_0"),
                (0, 2, "caller"),
                (1, 0, "caller_join_1"),
                (2, 0, "caller_join_2"),
                (2, 1, "caller_join_2"),
            ]
        );
    }

    #[test]
    fn async_steps_with_wrappers_and_block_operands() {
        let log = Arc::new(Mutex::new(Vec::<&'static str>::new()));
        let note = |what: &'static str| log.lock().unwrap().push(what);

        let future = try_join_async! {
            ok::<_, u8>(Some(1u32))
                => >>> ..ok_or(5u8) -> ready <<<
                ~|> >>> |> { note("b0 s1"); |v| v + 1 } <<<
                ~=> { note("b0 s2"); |v| ok(v + 1) },
            let second = ok::<u32, u8>(10) ~=> { note("b1 s1"); |v| ok(v + 1) },
            ok::<u32, u8>(100)
                ~|> |v: Result<u32, u8>| v.map(|v| v + 1)
                ~=> { let second = *second.as_ref().unwrap(); note("b2 s2"); move |v| ok(v + second) },
            map => |a, b, c| (a, b, c)
        };
        assert!(log.lock().unwrap().is_empty());
        assert_eq!(block_on(future), Ok((3, 11, 112)));
        assert_eq!(
            *log.lock().unwrap(),
            vec!["b0 s1", "b1 s1", "b0 s2", "b2 s2"]
        );

        let failing = try_join_async! {
            ok::<u32, u8>(1)
                ~=> |_| ready(Err::<u32, u8>(7))
                ~|> |v: Result<u32, u8>| -> Result<u32, u8> { unreachable!("{:?}", v) },
            ok::<u32, u8>(2)
                ~|> |v: Result<u32, u8>| v
                ~|> |v: Result<u32, u8>| -> Result<u32, u8> { unreachable!("{:?}", v) },
            ok::<u32, u8>(3)
        };
        assert_eq!(block_on(failing), Err(7));

        let plain = join_async! {
            ready(Some(Some(1u8))) |> >>> |> >>> |> |v| v + 1 ~|> |v: Option<Option<u8>>| v.unwrap().unwrap(),
            ready(2u8)
        };
        assert_eq!(block_on(plain), (2, 2));
    }
}
