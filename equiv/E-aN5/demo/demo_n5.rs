//!
//! Extra tests for handlers and result routing: `map` / `and_then` / `then` handlers (sync and async),
//! final results tuple, transposer of `try` macros, per-step destructuring and values of finished branches.
//!
#![allow(clippy::unused_unit, unused_mut, unused_parens)]

use std::cell::{Cell, RefCell};
use std::future::Future;
use std::pin::Pin;
use std::rc::Rc;
use std::sync::atomic::{AtomicUsize, Ordering};
use std::sync::{Arc, Mutex};
use std::task::{Context, Poll};

use futures::executor::block_on;
use futures::future::{err, ok, ready};
use join::{
    join, join_async, join_async_spawn, join_spawn, try_join, try_join_async,
    try_join_async_spawn, try_join_spawn,
};

///
/// Value which counts its drops and can't be cloned or copied.
///
struct Tracked {
    value: u32,
    drops: Arc<AtomicUsize>,
}

impl Tracked {
    fn new(value: u32, drops: &Arc<AtomicUsize>) -> Self {
        Self {
            value,
            drops: drops.clone(),
        }
    }
}

impl Drop for Tracked {
    fn drop(&mut self) {
        self.drops.fetch_add(1, Ordering::SeqCst);
    }
}

///
/// Future which returns `Pending` given number of times (waking itself) before it yields the value.
///
struct YieldTimes<T> {
    remaining: usize,
    value: Option<T>,
}

impl<T: Unpin> Future for YieldTimes<T> {
    type Output = T;

    fn poll(mut self: Pin<&mut Self>, cx: &mut Context<'_>) -> Poll<T> {
        if self.remaining == 0 {
            Poll::Ready(self.value.take().expect("polled after completion"))
        } else {
            self.remaining -= 1;
            cx.waker().wake_by_ref();
            Poll::Pending
        }
    }
}

fn yield_times<T: Unpin>(remaining: usize, value: T) -> YieldTimes<T> {
    YieldTimes {
        remaining,
        value: Some(value),
    }
}

// ---------------------------------------------------------------------------------------------
// sync handlers
// ---------------------------------------------------------------------------------------------

#[test]
fn sync_map_and_and_then_receive_values_in_branch_order() {
    let mapped = try_join! {
        Ok::<_, u8>("a".to_string()),
        Ok::<_, u8>("b".to_string()) ~|> |v| v + "1",
        Ok::<_, u8>("c".to_string()) ~|> |v| v + "1" ~|> |v| v + "2",
        Ok::<_, u8>("d".to_string()),
        map => |a: String, b: String, c: String, d: String| [a, b, c, d].join("-")
    };
    assert_eq!(mapped, Ok("a-b1-c12-d".to_string()));

    let chained: Result<String, u8> = try_join! {
        Ok::<_, u8>("a".to_string()),
        Ok::<_, u8>("b".to_string()) ~|> |v| v + "1",
        Ok::<_, u8>("c".to_string()),
        and_then => |a: String, b: String, c: String| if a == "a" { Err(7) } else { Ok(a + &b + &c) }
    };
    assert_eq!(chained, Err(7));

    let options = try_join! {
        Some(1u8),
        Some(2u8) ~|> |v| v + 10,
        Some(3u8),
        and_then => |a, b, c| Some((c, b, a))
    };
    assert_eq!(options, Some((3, 12, 1)));

    let single = try_join! { Some(5u8) ~|> |v| v + 1, map => |a| a * 2 };
    assert_eq!(single, Some(12));

    let single_no_handler = try_join! { Ok::<_, ()>(5u8) ~=> |v| Ok(v + 1) };
    assert_eq!(single_no_handler, Ok(6));
}

#[test]
fn sync_then_always_runs_once_with_raw_values() {
    let calls = Cell::new(0);
    let value = join! {
        Ok::<u8, u8>(1),
        Err::<u8, u8>(2) ~<| Ok::<u8, u8>(4),
        None::<u8>,
        then => |a, b, c| {
            calls.set(calls.get() + 1);
            (c, b, a)
        }
    };
    assert_eq!(value, (None, Ok(4), Ok(1)));
    assert_eq!(calls.get(), 1);

    let single = join! { 3u8 ~-> |v| v + 1, then => |a| a * 2 };
    assert_eq!(single, 8);
}

#[test]
fn sync_handler_is_skipped_on_failure_and_first_failure_is_returned() {
    let calls = Cell::new(0);
    let log = RefCell::new(Vec::new());

    // Failure in the first of three steps: lowest failing branch wins, every branch of the step runs,
    // nothing of later steps runs.
    let value: Result<u8, String> = try_join! {
        Ok::<u8, String>(1) |> |v| { log.borrow_mut().push("b0s0"); v } ~|> |v| { log.borrow_mut().push("b0s1"); v },
        Err::<u8, String>("first".into()) !> |e| { log.borrow_mut().push("b1s0"); e } ~|> |v| { log.borrow_mut().push("b1s1"); v },
        Err::<u8, String>("second".into()) !> |e| { log.borrow_mut().push("b2s0"); e } ~|> { log.borrow_mut().push("b2cap"); |v| v } ~|> |v| v,
        map => |a, b, c| { calls.set(calls.get() + 1); a + b + c }
    };
    assert_eq!(value, Err("first".to_string()));
    assert_eq!(calls.get(), 0);
    assert_eq!(*log.borrow(), vec!["b0s0", "b1s0", "b2s0"]);

    // Failure of a branch in the last step, other branches finished earlier.
    let value: Option<(u8, u8, u8, u8)> = try_join! {
        Some(1u8),
        Some(2u8) ~=> |v| Some(v + 1),
        Some(3u8) ~|> |v| v + 1 ~=> |_| None,
        Some(4u8),
    };
    assert_eq!(value, None);

    // Failures only become visible in the final transposer: the lowest branch wins.
    let value: Result<(u8, u8, u8, u8), u8> = try_join! {
        Ok::<u8, u8>(1),
        Ok::<u8, u8>(2) ~=> |_| Err(20),
        Ok::<u8, u8>(3),
        Ok::<u8, u8>(4) ~=> |_| Err(40),
    };
    assert_eq!(value, Err(20));
}

#[test]
fn sync_values_are_moved_and_dropped_exactly_once() {
    let drops = Arc::new(AtomicUsize::new(0));
    {
        let result = try_join! {
            Ok::<_, Tracked>(Tracked::new(1, &drops)),
            Ok::<_, Tracked>(Tracked::new(2, &drops)) ~|> |v| v,
            Ok::<_, Tracked>(Tracked::new(3, &drops)) ~|> |v| v ~|> |v| v,
            Ok::<_, Tracked>(Tracked::new(4, &drops)),
            Ok::<_, Tracked>(Tracked::new(5, &drops)) ~|> |v| v,
        };
        assert_eq!(drops.load(Ordering::SeqCst), 0);
        let (a, b, c, d, e) = result.ok().unwrap();
        assert_eq!(
            [a.value, b.value, c.value, d.value, e.value],
            [1, 2, 3, 4, 5]
        );
    }
    assert_eq!(drops.load(Ordering::SeqCst), 5);

    let drops = Arc::new(AtomicUsize::new(0));
    {
        let result = try_join! {
            Ok::<Tracked, Tracked>(Tracked::new(1, &drops)),
            Ok::<Tracked, Tracked>(Tracked::new(2, &drops)) ~=> |v| Err::<Tracked, Tracked>(v),
            Err::<Tracked, Tracked>(Tracked::new(3, &drops)) ~|> |v| v,
            Ok::<Tracked, Tracked>(Tracked::new(4, &drops)),
            map => |a: Tracked, _b: Tracked, _c: Tracked, _d: Tracked| a
        };
        // Step 0 fails in branch 2, its payload comes back untouched, everything else is gone.
        assert_eq!(result.as_ref().err().map(|v| v.value), Some(3));
        assert_eq!(drops.load(Ordering::SeqCst), 3);
    }
    assert_eq!(drops.load(Ordering::SeqCst), 4);

    let drops = Arc::new(AtomicUsize::new(0));
    {
        let (drops0, drops1, drops2) = (drops.clone(), drops.clone(), drops.clone());
        let result = join_spawn! {
            Tracked::new(1, &drops0),
            Tracked::new(2, &drops1) ~-> |v| v,
            Tracked::new(3, &drops2) ~-> |v| v ~-> |v| v,
            then => |a, b, c| (c, b, a)
        };
        assert_eq!(drops.load(Ordering::SeqCst), 0);
        assert_eq!([result.0.value, result.1.value, result.2.value], [3, 2, 1]);
    }
    assert_eq!(drops.load(Ordering::SeqCst), 3);
}

#[test]
fn sync_twelve_branches_keep_their_positions() {
    let value = try_join! {
        Some(0u32), Some(1u32) ~|> |v| v, Some(2u32), Some(3u32) ~|> |v| v ~|> |v| v,
        Some(4u32), Some(5u32), Some(6u32) ~|> |v| v, Some(7u32),
        Some(8u32), Some(9u32), Some(10u32) ~|> |v| v ~|> |v| v, Some(11u32),
    };
    assert_eq!(value, Some((0, 1, 2, 3, 4, 5, 6, 7, 8, 9, 10, 11)));

    let value = try_join_spawn! {
        Ok::<_, u32>(0u32), Ok::<_, u32>(1u32) ~|> |v| v, Ok::<_, u32>(2u32), Ok::<_, u32>(3u32) ~|> |v| v ~|> |v| v,
        Ok::<_, u32>(4u32), Ok::<_, u32>(5u32), Ok::<_, u32>(6u32) ~|> |v| v, Ok::<_, u32>(7u32),
        Ok::<_, u32>(8u32), Ok::<_, u32>(9u32), Ok::<_, u32>(10u32) ~=> |v| Err::<u32, u32>(v) ~|> |v| v, Ok::<_, u32>(11u32) ~=> |v| Err::<u32, u32>(v),
        map => |a: u32, b: u32, c: u32, d: u32, e: u32, f: u32, g: u32, h: u32, i: u32, j: u32, k: u32, l: u32| a + b + c + d + e + f + g + h + i + j + k + l
    };
    assert_eq!(value, Err(10));
}

#[test]
fn sync_let_names_see_latest_wrapped_results() {
    let seen = RefCell::new(Vec::new());
    let value = try_join! {
        let first = Ok::<u8, u8>(1) ~|> |v| v + 1,
        let mut second = Ok::<u8, u8>(10),
        Ok::<u8, u8>(100)
            ~|> { seen.borrow_mut().push((first.clone(), second.clone())); second = Ok(0); |v| v + 1 }
            ~|> { seen.borrow_mut().push((first.clone(), second.clone())); |v| v + 1 },
        map => |a, b, c| (a, b, c)
    };
    assert_eq!(value, Ok((2, 0, 102)));
    assert_eq!(*seen.borrow(), vec![(Ok(1), Ok(10)), (Ok(2), Ok(0))]);
}

#[test]
fn spawn_variants_agree_with_plain_ones() {
    fn plain(fail: bool) -> Result<u32, String> {
        try_join! {
            Ok::<u32, String>(1) ~=> move |v| if fail { Err(format!("fail {}", v)) } else { Ok(v + 1) },
            Ok::<u32, String>(2) ~|> |v| v + 1 ~|> |v| v * 2,
            Ok::<u32, String>(3),
            and_then => |a, b, c| Ok(a * 100 + b * 10 + c)
        }
    }
    fn spawned(fail: bool) -> Result<u32, String> {
        try_join_spawn! {
            Ok::<u32, String>(1) ~=> move |v| if fail { Err(format!("fail {}", v)) } else { Ok(v + 1) },
            Ok::<u32, String>(2) ~|> |v| v + 1 ~|> |v| v * 2,
            Ok::<u32, String>(3),
            and_then => |a, b, c| Ok(a * 100 + b * 10 + c)
        }
    }
    assert_eq!(plain(false), Ok(263));
    assert_eq!(plain(false), spawned(false));
    assert_eq!(plain(true), Err("fail 1".to_string()));
    assert_eq!(plain(true), spawned(true));
}

#[test]
fn sync_custom_joiner_with_transposed_results() {
    fn joiner<A, B, E>(
        a: impl FnOnce() -> Result<A, E>,
        b: impl FnOnce() -> Result<B, E>,
    ) -> Result<(A, B), E> {
        let a = a();
        let b = b();
        a.and_then(|a| b.map(|b| (a, b)))
    }

    let value: Result<u8, u8> = try_join! {
        custom_joiner(joiner)
        lazy_branches(true)
        transpose_results(false)
        Ok::<u8, u8>(1) |> |v| v + 1,
        Ok::<u8, u8>(2),
        map => |a, b| a + b
    };
    assert_eq!(value, Ok(4));

    let value: Result<(u8, u8), u8> = try_join! {
        transpose_results(false)
        lazy_branches(true)
        custom_joiner(joiner)
        Ok::<u8, u8>(1) => |v| Err(v + 1),
        Err::<u8, u8>(2),
    };
    assert_eq!(value, Err(2));
}

#[test]
fn sync_handler_panic_reaches_the_caller() {
    let result = std::panic::catch_unwind(|| {
        try_join! {
            Some(1u8), Some(2u8) ~|> |v| v + 1,
            map => |_a, _b| -> u8 { panic!("handler panic") }
        }
    });
    assert!(result.is_err());

    let result = std::panic::catch_unwind(|| {
        try_join_spawn! {
            Some(1u8), Some(2u8) ~|> |v: u8| -> u8 { panic!("branch panic {}", v) },
            and_then => |a, b| Some(a + b)
        }
    });
    assert!(result.is_err());
}

#[test]
fn sync_nested_macros_in_handlers_and_branches() {
    let value = try_join! {
        try_join! { Some(1u8), Some(2u8) ~|> |v| v + 1, map => |a, b| a + b },
        Some(join! { 1u8, 2u8 ~-> |v| v + 1, then => |a, b| a + b }) ~|> |v| v + 1,
        and_then => |a, b| try_join! { Some(a), Some(b), Some(1u8) ~|> |v| v + 1, map => |a, b, c| (a, b, c) }
    };
    assert_eq!(value, Some((4, 5, 2)));
}

// ---------------------------------------------------------------------------------------------
// async handlers
// ---------------------------------------------------------------------------------------------

#[test]
fn async_handlers_map_is_plain_and_then_is_awaited() {
    block_on(async {
        let mapped = try_join_async! {
            ok::<_, u8>(1u8),
            ok::<_, u8>(2u8) ~=> |v| ok(v + 1),
            yield_times(3, Ok::<u8, u8>(3)) ~=> |v| ok(v + 1) ~=> |v| yield_times(2, Ok::<u8, u8>(v + 1)),
            map => |a, b, c| (c, b, a)
        }
        .await;
        assert_eq!(mapped, Ok((5, 3, 1)));

        // Handler returns a future which becomes ready only after several wake-ups.
        let chained = try_join_async! {
            ok::<_, u8>(1u8),
            ok::<_, u8>(2u8) ~=> |v| ok(v + 1),
            and_then => |a, b| yield_times(4, Ok::<u8, u8>(a + b))
        }
        .await;
        assert_eq!(chained, Ok(4));

        let chained_err = try_join_async! {
            ok::<_, u8>(1u8),
            ok::<_, u8>(2u8),
            ok::<_, u8>(3u8) ~=> |v| ok(v + 1),
            and_then => |a, b, c| async move { if a + b + c > 100 { Ok(0u8) } else { Err(a + b + c) } }
        }
        .await;
        assert_eq!(chained_err, Err(7));

        let then = join_async! {
            ready(1u8),
            ready(2u8) ~|> |v| v + 1,
            yield_times(2, 3u8),
            then => |a, b, c| yield_times(3, (c, b, a))
        }
        .await;
        assert_eq!(then, (3, 3, 1));

        let single = try_join_async! { ok::<_, u8>(1u8) ~=> |v| ok(v + 1), and_then => |a| ok::<u8, u8>(a + 1) }.await;
        assert_eq!(single, Ok(3));

        let single = try_join_async! { ok::<_, u8>(1u8) ~=> |v| ok(v + 1) ~=> |v| err::<u8, u8>(v) }.await;
        assert_eq!(single, Err(2));
    });
}

#[test]
fn async_handler_is_skipped_on_failure() {
    block_on(async {
        let calls = Rc::new(Cell::new(0));
        let log = Rc::new(RefCell::new(Vec::new()));

        let (outer_calls, outer_log) = (calls.clone(), log.clone());
        let value = try_join_async! {
            ok::<u8, u8>(1) ~|> { let log = log.clone(); move |v| { log.borrow_mut().push("b0s1"); v } },
            err::<u8, u8>(9) ~|> { let log = log.clone(); log.borrow_mut().push("b1cap"); move |v| { log.borrow_mut().push("b1s1"); v } },
            ok::<u8, u8>(3),
            and_then => {
                let calls = calls.clone();
                move |a, b, c| { calls.set(calls.get() + 1); ok::<u8, u8>(a + b + c) }
            }
        }
        .await;
        assert_eq!(value, Err(9));
        let calls = outer_calls;
        assert_eq!(calls.get(), 0);
        assert!(outer_log.borrow().is_empty());

        let outer_calls = calls.clone();
        let value = try_join_async! {
            ok::<u8, u8>(1),
            ok::<u8, u8>(2) ~=> |v| err::<u8, u8>(v + 1),
            ok::<u8, u8>(3) ~|> |v| v ~|> |v| v,
            map => {
                let calls = calls.clone();
                move |a, b, c| { calls.set(calls.get() + 1); a + b + c }
            }
        }
        .await;
        assert_eq!(value, Err(3));
        assert_eq!(outer_calls.get(), 0);
    });
}

#[test]
fn async_macro_is_lazy_and_runs_handler_once() {
    let calls = Arc::new(AtomicUsize::new(0));
    let evaluated = Arc::new(AtomicUsize::new(0));

    let future = {
        let calls = calls.clone();
        let evaluated = evaluated.clone();
        try_join_async! {
            { evaluated.fetch_add(1, Ordering::SeqCst); ok::<u8, u8>(1) },
            ok::<u8, u8>(2) ~=> |v| ok(v + 1),
            and_then => move |a, b| { calls.fetch_add(1, Ordering::SeqCst); yield_times(2, Ok::<u8, u8>(a + b)) }
        }
    };
    assert_eq!(evaluated.load(Ordering::SeqCst), 0);
    assert_eq!(calls.load(Ordering::SeqCst), 0);
    assert_eq!(block_on(future), Ok(4));
    assert_eq!(evaluated.load(Ordering::SeqCst), 1);
    assert_eq!(calls.load(Ordering::SeqCst), 1);
}

#[test]
fn async_values_are_moved_and_dropped_exactly_once() {
    let outer_drops = Arc::new(AtomicUsize::new(0));
    let drops = outer_drops.clone();
    block_on(async move {
        let inner_drops = drops.clone();
        let result = try_join_async! {
            ok::<_, u8>(Tracked::new(1, &inner_drops)),
            ok::<_, u8>(Tracked::new(2, &inner_drops)) ~|> |v| v,
            ok::<_, u8>(Tracked::new(3, &inner_drops)) ~|> |v| v ~|> |v| v,
            ok::<_, u8>(Tracked::new(4, &inner_drops)),
            and_then => |a, b, c, d| yield_times(1, Ok::<_, u8>((d, c, b, a)))
        }
        .await;
        assert_eq!(drops.load(Ordering::SeqCst), 0);
        let (d, c, b, a) = result.ok().unwrap();
        assert_eq!([a.value, b.value, c.value, d.value], [1, 2, 3, 4]);
    });
    assert_eq!(outer_drops.load(Ordering::SeqCst), 4);
}

#[test]
fn async_let_names_stay_wrapped() {
    block_on(async {
        let outer_seen = Rc::new(RefCell::new(Vec::new()));
        let seen = outer_seen.clone();
        let value = try_join_async! {
            let first = ok::<u8, u8>(1) ~=> |v| ok(v + 1),
            let second = ok::<u8, u8>(10),
            ok::<u8, u8>(100)
                ~|> { let seen = seen.clone(); let pair: (Result<u8, u8>, Result<u8, u8>) = (first.clone(), second.clone()); move |v: Result<u8, u8>| { seen.borrow_mut().push(pair); v.map(|v| v + 1) } }
                ~|> { let seen = seen.clone(); let pair: (Result<u8, u8>, Result<u8, u8>) = (first.clone(), second.clone()); move |v: Result<u8, u8>| { seen.borrow_mut().push(pair); v.map(|v| v + 1) } },
            map => |a, b, c| (a, b, c)
        }
        .await;
        assert_eq!(value, Ok((2, 10, 102)));
        assert_eq!(*outer_seen.borrow(), vec![(Ok(1), Ok(10)), (Ok(2), Ok(10))]);
    });
}

#[test]
fn async_custom_joiner_with_transposed_results() {
    macro_rules! custom_futures_joiner {
        ($($futures: expr),+) => {
            ::futures::try_join!($($futures),*)
        }
    }

    block_on(async {
        let value = try_join_async! {
            futures_crate_path(::futures)
            custom_joiner(custom_futures_joiner!)
            transpose_results(false)
            ok::<_, ()>(2u16), ok::<_, ()>(3u16) ~=> |v| ok(v + 1), ok::<_, ()>(5u16),
            and_then => |a, b, c| ok::<_, ()>(a + b + c)
        }
        .await;
        assert_eq!(value, Ok(11));
    });
}

#[test]
fn async_spawn_variants_agree_with_plain_ones() {
    let runtime = tokio::runtime::Builder::new_multi_thread()
        .worker_threads(2)
        .enable_all()
        .build()
        .unwrap();

    runtime.block_on(async {
        let log = Arc::new(Mutex::new(Vec::new()));

        for fail in [false, true] {
            let (plain_log, spawned_log) = (log.clone(), log.clone());
            let plain = try_join_async! {
                ok::<u32, String>(1) ~=> move |v| async move { if fail { Err(format!("fail {}", v)) } else { Ok(v + 1) } },
                ok::<u32, String>(2) ~=> |v| ok(v + 1) ~=> |v| ok(v * 2),
                ok::<u32, String>(3),
                and_then => { let log = plain_log; move |a, b, c| { log.lock().unwrap().push("plain"); ok::<u32, String>(a * 100 + b * 10 + c) } }
            }
            .await;
            let spawned = try_join_async_spawn! {
                ok::<u32, String>(1) ~=> move |v| async move { if fail { Err(format!("fail {}", v)) } else { Ok(v + 1) } },
                ok::<u32, String>(2) ~=> |v| ok(v + 1) ~=> |v| ok(v * 2),
                ok::<u32, String>(3),
                and_then => { let log = spawned_log; move |a, b, c| { log.lock().unwrap().push("spawned"); ok::<u32, String>(a * 100 + b * 10 + c) } }
            }
            .await;
            assert_eq!(plain, spawned);
            assert_eq!(plain, if fail { Err("fail 1".to_string()) } else { Ok(263) });
        }
        assert_eq!(*log.lock().unwrap(), vec!["plain", "spawned"]);

        let plain = join_async! { ready(1u8), ready(2u8) ~|> |v| v + 1, then => |a, b| ready(a + b) }.await;
        let spawned = join_async_spawn! { ready(1u8), ready(2u8) ~|> |v| v + 1, then => |a, b| ready(a + b) }.await;
        assert_eq!(plain, spawned);

        // The future of an async macro with a handler can itself be spawned.
        let handle = tokio::spawn(try_join_async_spawn! {
            ok::<u8, u8>(1), ok::<u8, u8>(2) ~=> |v| ok(v + 1),
            and_then => |a, b| async move { tokio::task::yield_now().await; Ok::<u8, u8>(a + b) }
        });
        assert_eq!(handle.await.unwrap(), Ok(4));
    });
}

#[test]
fn async_handler_panic_reaches_the_caller() {
    let result = std::panic::catch_unwind(|| {
        block_on(try_join_async! {
            ok::<u8, u8>(1), ok::<u8, u8>(2) ~=> |v| ok(v + 1),
            and_then => |_a, _b| async move { if true { panic!("handler panic") } else { Ok::<u8, u8>(0) } }
        })
    });
    assert!(result.is_err());
}
