//! Seam crate: has the library name `join_impl`, re-exports the real `/repo/join_impl`
//! unchanged and overrides `generate_join` so that the generated code reaches
//! `::simrt::thread` wherever the real expansion names `::std::thread`.
//! Nothing else in the expansion is touched.
pub use real_join_impl::*;

use proc_macro2::{Group, Ident, TokenStream, TokenTree};

pub fn generate_join<
    T: real_join_impl::join::JoinInput<
        Chain = real_join_impl::action_expr_chain::ActionExprChain,
        Handler = real_join_impl::handler::Handler,
    >,
>(
    join: &T,
    config: real_join_impl::Config,
) -> TokenStream {
    rewrite(real_join_impl::generate_join(join, config))
}

/// Replace the path prefix `std :: thread` by `simrt :: thread`, recursively through groups.
fn rewrite(ts: TokenStream) -> TokenStream {
    let toks: Vec<TokenTree> = ts.into_iter().collect();
    let mut out: Vec<TokenTree> = Vec::with_capacity(toks.len());
    let mut i = 0;
    while i < toks.len() {
        match &toks[i] {
            TokenTree::Group(g) => {
                let mut ng = Group::new(g.delimiter(), rewrite(g.stream()));
                ng.set_span(g.span());
                out.push(TokenTree::Group(ng));
            }
            TokenTree::Ident(id) if id == "std" && is_thread_path(&toks, i) => {
                out.push(TokenTree::Ident(Ident::new("simrt", id.span())));
            }
            t => out.push(t.clone()),
        }
        i += 1;
    }
    out.into_iter().collect()
}

fn is_thread_path(toks: &[TokenTree], i: usize) -> bool {
    let p = |k: usize, c: char| matches!(toks.get(k), Some(TokenTree::Punct(p)) if p.as_char() == c);
    p(i + 1, ':')
        && p(i + 2, ':')
        && matches!(toks.get(i + 3), Some(TokenTree::Ident(id)) if id == "thread")
}
