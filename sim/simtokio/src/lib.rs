//! `tokio` shim: the two items the expansion of the task-spawning macros uses
//! (`::tokio::spawn` and the `JoinHandle`/`JoinError` it yields), backed by the simulator's
//! executor. Outside a simulation `spawn` panics, as tokio does outside a runtime.
pub use simrt::exec::{spawn, JoinError, JoinHandle};
pub mod task {
    pub use simrt::exec::{spawn, JoinError, JoinHandle};
}
pub mod runtime {
    //! `Handle::current()` / `Handle::spawn`: a runtime is a generation number of the simulator's executor (F-migrate)
    pub use simrt::exec::Handle;
}
