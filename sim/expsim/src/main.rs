//! C20: expansion is a pure function of the macro input — simulated client threads expand
//! inputs in seeded histories (repeats, permutations, interleavings at expansion granularity);
//! every output must equal the output of a fresh process that expanded only that input.
//! Also hosts the direct (non-simulation) assertions for the compile-time clauses of C13 / C16.

use join_impl::{generate_join, Config, JoinInputDefault};
use serde_json::{json, Value};
use simrt::chooser::{Chooser, Strat};
use simrt::core::{lock, Mode, Plan};
use simrt::rng::{hash_all, hash_str, Rng};
use std::panic::{catch_unwind, AssertUnwindSafe};
use std::str::FromStr;
use std::sync::{Arc, Mutex};

const KINDS: [(&str, bool, bool, bool); 12] = [
    // name, is_async, is_try, is_spawn
    ("join", false, false, false),
    ("join_spawn", false, false, true),
    ("spawn", false, false, true),
    ("try_join", false, true, false),
    ("try_join_spawn", false, true, true),
    ("try_spawn", false, true, true),
    ("join_async", true, false, false),
    ("join_async_spawn", true, false, true),
    ("async_spawn", true, false, true),
    ("try_join_async", true, true, false),
    ("try_join_async_spawn", true, true, true),
    ("try_async_spawn", true, true, true),
];

fn config_of(kind: &str) -> Config {
    let k = KINDS.iter().find(|k| k.0 == kind).expect("unknown kind");
    Config { is_async: k.1, is_try: k.2, is_spawn: k.3 }
}

/// `generate_join` reads its input through the `JoinInput` trait: an existing seam. In a simulated history every accessor
/// call is a scheduling point, so the baton scheduler can switch to another client INSIDE an expansion (between the entry of
/// `generate_join` and the generation proper).
struct GatedInput<'a> {
    inner: &'a JoinInputDefault,
    ev: u32,
}
impl<'a> GatedInput<'a> {
    fn gate(&self) {
        if GATED.with(|g| g.get()) {
            simrt::w::event(self.ev, 0);
            // reentrancy: the accessor itself expands another invocation on this thread, to completion, before it returns
            // (the trait allows any implementation; state kept per thread or per process across the accessor calls of one
            // expansion is clobbered by it)
            let n = GATE_COUNT.with(|c| {
                c.set(c.get() + 1);
                c.get()
            });
            let due = REENTER.with(|r| r.borrow().as_ref().map(|x| x.2 == n).unwrap_or(false));
            if due {
                let (text, kind, _) = REENTER.with(|r| r.borrow_mut().take()).unwrap();
                GATED.with(|g| g.set(false));
                let out = expand(&text, &kind);
                GATED.with(|g| g.set(true));
                NESTED_OUT.with(|o| *o.borrow_mut() = Some(out));
            }
        }
    }
}
thread_local! {
    static GATED: std::cell::Cell<bool> = const { std::cell::Cell::new(false) };
    static GATE_EV: std::cell::Cell<u32> = const { std::cell::Cell::new(0) };
    static GATE_COUNT: std::cell::Cell<u32> = const { std::cell::Cell::new(0) };
    static REENTER: std::cell::RefCell<Option<(String, String, u32)>> = const { std::cell::RefCell::new(None) };
    static NESTED_OUT: std::cell::RefCell<Option<String>> = const { std::cell::RefCell::new(None) };
}
impl<'a> join_impl::join::JoinInput for GatedInput<'a> {
    type Chain = join_impl::action_expr_chain::ActionExprChain;
    type Handler = join_impl::handler::Handler;
    fn futures_crate_path(&self) -> Option<&syn::Path> {
        self.gate();
        self.inner.futures_crate_path.as_ref()
    }
    fn branches(&self) -> &[Self::Chain] {
        self.gate();
        &self.inner.branches
    }
    fn handler(&self) -> Option<&Self::Handler> {
        self.gate();
        self.inner.handler.as_ref()
    }
    fn joiner(&self) -> Option<&proc_macro2::TokenStream> {
        self.gate();
        self.inner.custom_joiner.as_ref()
    }
    fn transpose_results_option(&self) -> Option<bool> {
        self.gate();
        self.inner.transpose_results
    }
    fn lazy_branches_option(&self) -> Option<bool> {
        self.gate();
        self.inner.lazy_branches
    }
}

/// outcome of one library-level expansion, as a string
fn expand(text: &str, kind: &str) -> String {
    let r = catch_unwind(AssertUnwindSafe(|| {
        let ts = match proc_macro2::TokenStream::from_str(text) {
            Ok(t) => t,
            Err(e) => return format!("LEXERR {}", e),
        };
        match syn::parse2::<JoinInputDefault>(ts) {
            Ok(parsed) => {
                let gi = GatedInput { inner: &parsed, ev: GATE_EV.with(|g| g.get()) };
                format!("OK {}", generate_join(&gi, config_of(kind)))
            }
            Err(e) => format!("SYNERR {}", e),
        }
    }));
    match r {
        Ok(s) => s,
        Err(p) => format!("PANIC {}", simrt::exec::panic_msg(&p)),
    }
}

fn arg<'a>(args: &'a [String], name: &str) -> Option<&'a str> {
    args.iter().position(|a| a == name).and_then(|i| args.get(i + 1)).map(|s| s.as_str())
}

/// indices of the crafted inputs per group (inputs carrying a "group" field)
fn load_groups(path: &str) -> Vec<Vec<usize>> {
    let txt = std::fs::read_to_string(path).expect("inputs file");
    let v: Value = serde_json::from_str(&txt).expect("inputs json");
    let mut groups: std::collections::BTreeMap<u64, Vec<usize>> = std::collections::BTreeMap::new();
    for (i, x) in v.as_array().unwrap().iter().enumerate() {
        if let Some(g) = x["group"].as_u64() {
            groups.entry(g).or_default().push(i);
        }
    }
    groups.into_values().collect()
}

fn load_inputs(path: &str) -> Vec<(String, Vec<String>)> {
    let txt = std::fs::read_to_string(path).expect("inputs file");
    let v: Value = serde_json::from_str(&txt).expect("inputs json");
    v.as_array()
        .unwrap()
        .iter()
        .map(|x| (x["text"].as_str().unwrap().to_string(), x["kinds"].as_array().unwrap().iter().map(|k| k.as_str().unwrap().to_string()).collect()))
        .collect()
}

fn main() {
    std::panic::set_hook(Box::new(|_| {}));
    let args: Vec<String> = std::env::args().collect();
    match args.get(1).map(|s| s.as_str()) {
        // fresh-process reference: expand exactly one (input, kind) and print the hash
        Some("one") => {
            let inputs = load_inputs(arg(&args, "--inputs").unwrap());
            let i: usize = arg(&args, "--index").unwrap().parse().unwrap();
            let (text, kinds) = &inputs[i];
            let mut out = Vec::new();
            for k in kinds {
                let s = expand(text, k);
                out.push(json!({"kind": k, "hash": hash_str(&s).to_string(), "class": s.split(' ').next().unwrap_or(""), "len": s.len()}));
            }
            println!("{}", Value::Array(out));
        }
        // identifiers of the form __xyz that occur in the expansions of one input: the generator's own names (used to craft
        // inputs in which the USER spells such a name)
        Some("ids") => {
            let inputs = load_inputs(arg(&args, "--inputs").unwrap());
            let i: usize = arg(&args, "--index").unwrap().parse().unwrap();
            let (text, kinds) = &inputs[i];
            let mut ids = std::collections::BTreeSet::new();
            for k in kinds {
                let s = expand(text, k);
                let b = s.as_bytes();
                let mut j = 0;
                while j + 2 < b.len() {
                    let boundary = j == 0 || !(b[j - 1].is_ascii_alphanumeric() || b[j - 1] == b'_');
                    if boundary && b[j] == b'_' && b[j + 1] == b'_' && (b[j + 2].is_ascii_alphanumeric()) {
                        let mut e = j + 2;
                        while e < b.len() && (b[e].is_ascii_alphanumeric() || b[e] == b'_') {
                            e += 1;
                        }
                        ids.insert(s[j..e].to_string());
                        j = e;
                    } else {
                        j += 1;
                    }
                }
            }
            println!("{}", json!(ids.into_iter().collect::<Vec<_>>()));
        }
        Some("sim") => sim(&args),
        Some("static") => static_checks(),
        _ => {
            eprintln!("usage: expsim one --inputs F --index I | sim --inputs F --ref G --seed S --histories N [--replay FILE] | static");
            std::process::exit(2);
        }
    }
}

#[derive(Clone)]
struct Op {
    input: usize,
    kind: String,
    /// reentrant expansion of (input, kind) inside the n-th accessor call of this one
    nested: Option<(usize, String, u32)>,
}

fn gen_history(rng: &mut Rng, inputs: &[(String, Vec<String>)], groups: &[Vec<usize>]) -> Vec<Vec<Op>> {
    let clients = 1 + rng.below(4);
    // a small pool, so that the same invocation is expanded repeatedly and by several clients; every
    // fourth history draws its pool from one group of crafted, textually overlapping inputs
    let pool: Vec<usize> = if !groups.is_empty() && rng.chance(1, 4) {
        rng.pick(groups).clone()
    } else {
        (0..(2 + rng.below(4))).map(|_| rng.below(inputs.len())).collect()
    };
    (0..clients)
        .map(|_| {
            let n = 2 + rng.below(7);
            (0..n)
                .map(|_| {
                    let i = *rng.pick(&pool);
                    let k = rng.pick(&inputs[i].1).clone();
                    let nested = if rng.chance(1, 6) {
                        let j = *rng.pick(&pool);
                        Some((j, rng.pick(&inputs[j].1).clone(), 1 + rng.below(8) as u32))
                    } else {
                        None
                    };
                    Op { input: i, kind: k, nested }
                })
                .collect()
        })
        .collect()
}

struct HistResult {
    mismatches: Vec<Value>,
    log_hash: u64,
    decisions: Vec<u32>,
    alternatives: u64,
    expansions: u64,
}

fn run_history(hist: &[Vec<Op>], inputs: Arc<Vec<(String, Vec<String>)>>, refs: Arc<Vec<Vec<(String, String)>>>, strat: Strat, seed: u64, replay: Option<Vec<u32>>) -> HistResult {
    lock().reset(Mode::Threads, Plan::default());
    let chooser = Chooser::new(strat, seed, replay);
    let mism: Arc<Mutex<Vec<Value>>> = Arc::new(Mutex::new(Vec::new()));
    let count = Arc::new(Mutex::new(0u64));
    let hist_owned: Vec<Vec<Op>> = hist.to_vec();
    let m2 = mism.clone();
    let c2 = count.clone();
    let tr = simrt::thread::run_as_caller(Some("main".into()), chooser, move || {
        let mut handles = Vec::new();
        for (ci, ops) in hist_owned.into_iter().enumerate() {
            let inputs = inputs.clone();
            let refs = refs.clone();
            let mism = m2.clone();
            let count = c2.clone();
            let h = simrt::thread::Builder::new()
                .name(format!("client-{}", ci))
                .spawn(move || {
                    for (oi, op) in ops.iter().enumerate() {
                        // scheduling point before every expansion (event id = client * 1000 + op index)
                        simrt::w::event((ci * 1000 + oi) as u32, op.input as u64);
                        GATED.with(|g| g.set(true));
                        GATE_EV.with(|g| g.set((500_000 + ci * 1000 + oi) as u32));
                        GATE_COUNT.with(|c| c.set(0));
                        NESTED_OUT.with(|o| *o.borrow_mut() = None);
                        REENTER.with(|r| *r.borrow_mut() = op.nested.as_ref().map(|(j, k, at)| (inputs[*j].0.clone(), k.clone(), *at)));
                        let s = expand(&inputs[op.input].0, &op.kind);
                        GATED.with(|g| g.set(false));
                        REENTER.with(|r| *r.borrow_mut() = None);
                        *count.lock().unwrap() += 1;
                        if let (Some(ns), Some((j, k, at))) = (NESTED_OUT.with(|o| o.borrow_mut().take()), op.nested.as_ref()) {
                            *count.lock().unwrap() += 1;
                            let nh = hash_str(&ns).to_string();
                            let nexp = refs[*j].iter().find(|(kk, _)| kk == k).map(|(_, h)| h.clone()).unwrap_or_default();
                            if nh != nexp {
                                mism.lock().unwrap().push(json!({"client": ci, "op": oi, "input": j, "kind": k, "reentrant_at_accessor_call": at, "inside_input": op.input, "hash": nh, "fresh_process_hash": nexp, "output_head": ns.chars().take(300).collect::<String>()}));
                            }
                        }
                        let h = hash_str(&s).to_string();
                        let expected = refs[op.input].iter().find(|(k, _)| *k == op.kind).map(|(_, h)| h.clone()).unwrap_or_default();
                        if h != expected {
                            mism.lock().unwrap().push(json!({"client": ci, "op": oi, "input": op.input, "kind": op.kind, "hash": h, "fresh_process_hash": expected, "output_head": s.chars().take(300).collect::<String>()}));
                        }
                    }
                })
                .unwrap();
            handles.push(h);
        }
        for h in handles {
            h.join().unwrap();
        }
    });
    let g = lock();
    let lh = simrt::core::log_hash(&g.log);
    drop(g);
    let mismatches = mism.lock().unwrap().clone();
    let expansions = *count.lock().unwrap();
    HistResult { mismatches, log_hash: lh, decisions: tr.decisions, alternatives: tr.alternatives, expansions }
}

fn hist_to_json(h: &[Vec<Op>]) -> Value {
    Value::Array(
        h.iter()
            .map(|c| {
                Value::Array(
                    c.iter()
                        .map(|o| match &o.nested {
                            None => json!([o.input, o.kind]),
                            Some((j, k, at)) => json!([o.input, o.kind, [j, k, at]]),
                        })
                        .collect(),
                )
            })
            .collect(),
    )
}
fn hist_from_json(v: &Value) -> Vec<Vec<Op>> {
    v.as_array()
        .unwrap()
        .iter()
        .map(|c| {
            c.as_array()
                .unwrap()
                .iter()
                .map(|o| Op {
                    input: o[0].as_u64().unwrap() as usize,
                    kind: o[1].as_str().unwrap().to_string(),
                    nested: o.get(2).and_then(|n| n.as_array()).map(|n| (n[0].as_u64().unwrap() as usize, n[1].as_str().unwrap().to_string(), n[2].as_u64().unwrap() as u32)),
                })
                .collect()
        })
        .collect()
}

fn sim(args: &[String]) {
    let inputs = Arc::new(load_inputs(arg(args, "--inputs").unwrap()));
    let refs_v: Value = serde_json::from_str(&std::fs::read_to_string(arg(args, "--ref").unwrap()).unwrap()).unwrap();
    let refs: Arc<Vec<Vec<(String, String)>>> = Arc::new(
        refs_v.as_array().unwrap().iter().map(|per| per.as_array().unwrap().iter().map(|x| (x["kind"].as_str().unwrap().to_string(), x["hash"].as_str().unwrap().to_string())).collect()).collect(),
    );
    if let Some(rf) = arg(args, "--replay") {
        // a replay file lists ALL histories the failing process had executed (hidden state may have been left behind by an
        // earlier history), with their decision lists; they are re-run in order in this fresh process
        let v: Value = serde_json::from_str(&std::fs::read_to_string(rf).unwrap()).unwrap();
        let hs = v["histories"].as_array().unwrap();
        let ss = v["schedules"].as_array().unwrap();
        let mut all_mm: Vec<Value> = Vec::new();
        let mut lh = 0u64;
        for (h, sch) in hs.iter().zip(ss.iter()) {
            let hist = hist_from_json(h);
            let dec: Vec<u32> = sch.as_array().unwrap().iter().map(|x| x.as_u64().unwrap() as u32).collect();
            let r = run_history(&hist, inputs.clone(), refs.clone(), Strat::Uniform, 0, Some(dec));
            lh = hash_all(&[lh, r.log_hash]);
            all_mm.extend(r.mismatches);
        }
        let same_log = lh.to_string() == v["log_hash"].as_str().unwrap_or("");
        println!("{}", json!({"type": "replay", "status": if !all_mm.is_empty() && same_log { "reproduced" } else if !all_mm.is_empty() { "reproduced_with_different_log" } else { "not_reproduced" }, "log_hash": lh.to_string(), "mismatches": all_mm}));
        std::process::exit(if all_mm.is_empty() { 0 } else { 1 });
    }
    let groups = load_groups(arg(args, "--inputs").unwrap());
    let seed: u64 = arg(args, "--seed").and_then(|s| s.parse().ok()).unwrap_or(1);
    let n: u64 = arg(args, "--histories").and_then(|s| s.parse().ok()).unwrap_or(200);
    let shard: u64 = arg(args, "--shard").and_then(|s| s.parse().ok()).unwrap_or(0);
    let t0 = std::time::Instant::now();
    let mut sigs = std::collections::BTreeSet::new();
    let mut nontrivial = std::collections::BTreeSet::new();
    let mut expansions = 0u64;
    let mut decisions = 0u64;
    let mut samples: Vec<Value> = Vec::new();
    let mut digest = 0u64;
    let mut by_clients = [0u64; 5];
    let mut all_hist: Vec<Value> = Vec::new();
    let mut all_sched: Vec<Value> = Vec::new();
    let mut chain_hash = 0u64;
    for i in 0..n {
        let hs = hash_all(&[seed, shard, i]);
        let mut rng = Rng::new(hs);
        let hist = gen_history(&mut rng, &inputs, &groups);
        let strat = Strat::from_seed(hs ^ 0x77, false);
        let r = run_history(&hist, inputs.clone(), refs.clone(), strat, hs, None);
        expansions += r.expansions;
        decisions += r.decisions.len() as u64;
        all_hist.push(hist_to_json(&hist));
        all_sched.push(json!(r.decisions));
        chain_hash = hash_all(&[chain_hash, r.log_hash]);
        by_clients[hist.len()] += 1;
        let sig = hash_all(&[hash_str(&hist_to_json(&hist).to_string()), r.log_hash]);
        sigs.insert(sig);
        digest = hash_all(&[digest, sig]);
        if hist.len() >= 2 && r.alternatives >= 1 {
            nontrivial.insert(sig);
        }
        if samples.len() < 2 {
            samples.push(json!({"history": hist_to_json(&hist), "strategy": strat.name(), "decisions": r.decisions.len(), "expansions": r.expansions}));
        }
        if !r.mismatches.is_empty() {
            // reported unminimised: the driver minimises over fresh processes (state may have leaked from earlier histories)
            let mm = r.mismatches.clone();
            println!(
                "{}",
                json!({"type": "violation", "format": 2, "check": "C20", "property": "C20", "violation": "C20.output_differs",
                       "message": format!("an expansion inside a history differs from the expansion of the same input in a fresh process: {}", mm[0]),
                       "master_seed": seed, "shard": shard, "histories": all_hist, "schedules": all_sched, "log_hash": chain_hash.to_string(), "mismatches": mm})
            );
            break;
        }
    }
    println!(
        "{}",
        json!({"type": "stats", "histories": n, "expansions": expansions, "distinct": sigs.len(), "distinct_nontrivial": nontrivial.len(), "decisions_total": decisions,
               "by_clients": by_clients, "samples": samples, "wall_s": t0.elapsed().as_secs_f64(), "digest": digest.to_string()})
    );
}

// ------------------------------------------------------------------------------------------
// direct assertions (not simulation): illegal inputs must be rejected at expansion time
// ------------------------------------------------------------------------------------------

fn static_checks() {
    // (property, input, kinds for which the input must be rejected)
    let all: Vec<&str> = KINDS.iter().map(|k| k.0).collect();
    let try_kinds: Vec<&str> = KINDS.iter().filter(|k| k.2).map(|k| k.0).collect();
    let plain_kinds: Vec<&str> = KINDS.iter().filter(|k| !k.2).map(|k| k.0).collect();
    let sync_kinds: Vec<&str> = KINDS.iter().filter(|k| !k.1).map(|k| k.0).collect();
    let mut cases: Vec<(&str, String, Vec<&str>)> = Vec::new();
    for h in ["map", "and_then"] {
        cases.push(("C13", format!("Some(1), Some(2), {} => |a, b| a + b", h), plain_kinds.clone()));
        cases.push(("C13", format!("{} => |a| a, Some(1)", h), plain_kinds.clone()));
    }
    cases.push(("C13", "Some(1), Some(2), then => |a, b| a".to_string(), try_kinds.clone()));
    cases.push(("C13", "then => |a| a, Some(1)".to_string(), try_kinds.clone()));
    for (h1, h2) in [("map", "map"), ("map", "and_then"), ("and_then", "map"), ("then", "then"), ("then", "map"), ("and_then", "then"), ("and_then", "and_then")] {
        cases.push(("C13", format!("Some(1), {} => |a| a, {} => |a| a", h1, h2), all.clone()));
        cases.push(("C13", format!("{} => |a| a, Some(1), {} => |a| a", h1, h2), all.clone()));
    }
    for o in ["custom_joiner(j!)", "lazy_branches(true)", "transpose_results(false)", "futures_crate_path(::futures)"] {
        cases.push(("C16", format!("{} {} Some(1), Some(2)", o, o), all.clone()));
        for o2 in ["custom_joiner(j!)", "lazy_branches(false)", "transpose_results(true)", "futures_crate_path(::f)"] {
            if o.split('(').next() != o2.split('(').next() {
                cases.push(("C16", format!("{} {} {} Some(1), Some(2)", o, o2, o), all.clone()));
            }
        }
    }
    cases.push(("C16", "futures_crate_path(::futures) Some(1), Some(2)".to_string(), sync_kinds.clone()));
    let mut checked = 0;
    let mut accepted: Vec<Value> = Vec::new();
    for (prop, text, kinds) in &cases {
        for k in kinds {
            checked += 1;
            let s = expand(text, k);
            let rejected = s.starts_with("SYNERR") || (s.starts_with("PANIC") && !s.contains("bug"));
            if !rejected {
                accepted.push(json!({"property": prop, "input": text, "kind": k, "outcome": s.chars().take(200).collect::<String>()}));
            }
        }
    }
    // legal counterparts are accepted: every ordered subset of the four options (65 sequences)
    let mut legal_rejected: Vec<Value> = Vec::new();
    let optv = ["futures_crate_path(::futures)", "custom_joiner(j!)", "transpose_results(false)", "lazy_branches(true)"];
    let mut seqs: Vec<Vec<usize>> = vec![vec![]];
    let mut frontier: Vec<Vec<usize>> = vec![vec![]];
    for _ in 0..4 {
        let mut next = Vec::new();
        for s in &frontier {
            for o in 0..4 {
                if !s.contains(&o) {
                    let mut t = s.clone();
                    t.push(o);
                    next.push(t);
                }
            }
        }
        seqs.extend(next.iter().cloned());
        frontier = next;
    }
    let async_kinds: Vec<&str> = KINDS.iter().filter(|k| k.1).map(|k| k.0).collect();
    let mut legal: Vec<(String, Vec<&str>)> = Vec::new();
    for sq in &seqs {
        let text = format!("{} Some(1), Some(2)", sq.iter().map(|o| optv[*o]).collect::<Vec<_>>().join(" "));
        legal.push((text, if sq.contains(&0) { async_kinds.clone() } else { all.clone() }));
    }
    for (text, kinds) in legal.into_iter().chain([
        ("Some(1), Some(2), map => |a, b| a + b".to_string(), try_kinds.clone()),
        ("Some(1), Some(2), and_then => |a, b| Some(a + b)".to_string(), try_kinds.clone()),
        ("Some(1), Some(2), then => |a, b| a".to_string(), plain_kinds.clone()),
    ]) {
        for k in &kinds {
            checked += 1;
            let s = expand(&text, k);
            if !s.starts_with("OK") {
                legal_rejected.push(json!({"input": text, "kind": k, "outcome": s.chars().take(200).collect::<String>()}));
            }
        }
    }
    println!("{}", json!({"type": "static", "checked": checked, "cases": cases.len(), "accepted_illegal": accepted, "legal_rejected": legal_rejected}));
}
