//! Entry point of every corpus binary: runs its share of (program, kind) pairs for one
//! check, evaluates the oracles, minimises violations and prints JSON lines.

use crate::chooser::Strat;
use crate::core::{CallerName, Dep, Ph, Plan};
use crate::oracle::{self, Viol};
use crate::plans;
use crate::prog::{EvKind, Kind, Prog};
use crate::rng::{hash_all, hash_str, Rng};
use crate::run::{run_reference, run_sim, Obs, Outcome, RefRun};
use serde_json::{json, Value};
use std::collections::{BTreeMap, BTreeSet};

// ------------------------------------------------------------------------------------------
// generic violation -> property code
// ------------------------------------------------------------------------------------------

pub fn map_code(check: &str, v: &Viol) -> Option<&'static str> {
    let plain_ev = matches!(v.evk, None | Some(EvKind::Init) | Some(EvKind::Call) | Some(EvKind::Mk));
    let g = v.g;
    match check {
        "C01" => match g {
            "value" | "unexpected_panic" => Some("C01.value"),
            "events_missing" | "events_extra" | "event_args" | "lineage" | "branch_order" if plain_ev => Some("C01.events"),
            _ => None,
        },
        "C02" => match g {
            "value" | "unexpected_panic" => Some("C02.value"),
            "events_missing" | "events_extra" | "event_args" | "lineage" | "branch_order" if plain_ev => Some("C02.events"),
            _ => None,
        },
        "C03" => match g {
            "barrier" | "capture_early" => Some("C03.barrier_order"),
            "lineage" => Some("C03.lineage"),
            "events_missing" => Some("C03.step_incomplete"),
            "deadlock" => Some("C03.deadlock"),
            "hang" | "step_cap" => Some("C03.hang"),
            _ => None,
        },
        "C04" => match g {
            "value" | "unexpected_panic" => Some("C04.position"),
            "event_args" if v.evk == Some(EvKind::Handler) => Some("C04.handler_arg_order"),
            _ => None,
        },
        "C05" => match g {
            "value" => Some("C05.wrong_result"),
            "panic_instead_of_failure" => Some("C05.panic_instead_of_failure"),
            _ => None,
        },
        "C06" => match g {
            "later_step" => Some("C06.later_step_event"),
            "handler_on_failure" => Some("C06.handler_called"),
            "failing_step_incomplete" => Some("C06.failing_step_incomplete"),
            _ => None,
        },
        "C08" => match g {
            "thread_name" => Some("C08.thread_name"),
            "thread_not_distinct" => Some("C08.thread_not_distinct"),
            "single_branch_off_caller" => Some("C08.single_branch_off_caller"),
            "caller_continued_before_exit" => Some("C08.caller_continued_before_exit"),
            "unregistered_thread" => Some("C08.unregistered_thread"),
            "deadlock" => Some("C08.not_concurrent"),
            _ => None,
        },
        "C09" => match g {
            "not_lazy" => Some("C09.not_lazy"),
            "hang" => Some("C09.hang"),
            "step_cap" => Some("C09.step_cap"),
            "value" | "unexpected_panic" => Some("C09.value"),
            "barrier" => Some("C09.barrier"),
            _ => None,
        },
        // C10's panic pass: every single panic position (as C18), only the ledger is judged — a panic must not leak or double-drop
        // any value (unwinding drops what the caller holds; detached threads / tasks drop theirs when they end)
        "C10p" => match g {
            "leak" => Some("C10.leak"),
            _ => None,
        },
        "C10" => match g {
            "events_missing" | "events_extra" if plain_ev => Some("C10.event_count"),
            "event_args" | "lineage" if plain_ev => Some("C10.event_args"),
            "leak" => Some("C10.leak"),
            "runs_after_cancel" => Some("C10.runs_after_cancel"),
            "token_count" => Some("C10.token_count"),
            _ => None,
        },
        "C11" => match g {
            "capture_late" if v.evk != Some(EvKind::Joiner) => Some("C11.capture_late"),
            "capture_early" => Some("C11.capture_early"),
            "capture_order" => Some("C11.capture_order"),
            "events_missing" | "events_extra" if v.evk == Some(EvKind::Cap) => Some("C11.capture_count"),
            _ => None,
        },
        "C12" => match g {
            "snapshot" => Some("C12.snapshot"),
            "value" | "unexpected_panic" => Some("C12.result_changed"),
            _ => None,
        },
        "C13" => match g {
            "events_missing" | "events_extra" if v.evk == Some(EvKind::Handler) => Some("C13.handler_count"),
            "event_args" if v.evk == Some(EvKind::Handler) => Some("C13.handler_args"),
            "handler_on_failure" => Some("C13.handler_on_failure"),
            "value" | "unexpected_panic" => Some("C13.handler_result"),
            _ => None,
        },
        "C16" => match g {
            "events_missing" | "events_extra" if v.evk == Some(EvKind::Joiner) => Some("C16.joiner_count"),
            "event_args" if v.evk == Some(EvKind::Joiner) => Some("C16.joiner_arity"),
            "value" | "unexpected_panic" => Some("C16.value"),
            "branch_order" | "barrier" => Some("C16.joiner_order"),
            "capture_late" if v.evk == Some(EvKind::Joiner) => Some("C16.not_lazy"),
            _ => None,
        },
        "C17" => match g {
            "value" | "unexpected_panic" => Some("C17.value"),
            "events_missing" | "events_extra" | "event_args" | "lineage" | "branch_order" | "capture_order" | "capture_late" | "capture_early" | "barrier" => Some("C17.events"),
            "thread_name" | "thread_not_distinct" | "single_branch_off_caller" => Some("C17.thread_name"),
            "deadlock" | "hang" => Some("C17.nested_not_concurrent"),
            _ => None,
        },
        "C18" => match g {
            "no_panic" => Some("C18.no_panic"),
            "later_step_after_panic" => Some("C18.later_step_after_panic"),
            "deadlock" => Some("C18.deadlock"),
            "hang" | "step_cap" => Some("C18.hang"),
            _ => None,
        },
        // "ALL": development aid, reports every generic code
        "ALL" => Some(Box::leak(format!("ALL.{}", g).into_boxed_str())),
        _ => None,
    }
}

#[derive(Clone, Copy, Debug, PartialEq, Eq)]
pub enum PlanMode {
    Base,
    Barrier,
    FailEnum,
    Thread,
    Async,
    PanicEnum,
    Cancel,
    Agree,
}

pub fn mode_of(check: &str) -> PlanMode {
    match check {
        "C03" => PlanMode::Barrier,
        "C05" | "C06" => PlanMode::FailEnum,
        "C07" => PlanMode::Agree,
        "C08" => PlanMode::Thread,
        "C09" => PlanMode::Async,
        "C18" => PlanMode::PanicEnum,
        _ => PlanMode::Base,
    }
}

/// which macro kinds a check runs
pub fn kind_wanted(check: &str, k: Kind) -> bool {
    match check {
        "C08" => k.is_spawn() && !k.is_async(),
        "C09" => k.is_async(),
        "C05" | "C06" => k.is_try(),
        _ => true,
    }
}

#[derive(Clone, Copy)]
pub struct Budget {
    pub plans: u32,
    pub scheds: u32,
    pub pair_cap: u32,
}

pub fn budget(mode: PlanMode, thorough: bool, check: &str) -> Budget {
    let (p, s, c) = match mode {
        PlanMode::Base => (8, 8, 200),
        PlanMode::Barrier => (8, 12, 200),
        PlanMode::FailEnum => (1, 8, 100),
        PlanMode::Thread => (8, 10, 200),
        PlanMode::Async => (8, 12, 200),
        PlanMode::PanicEnum => (1, 6, 100),
        PlanMode::Cancel => (6, 6, 200),
        PlanMode::Agree => (6, 4, 200),
    };
    if thorough && check == "C17" {
        // grid programs (up to 25 x 25 captured actions x 2 steps) have ~2000 events per run
        return Budget { plans: p * 2, scheds: s * 2, pair_cap: c };
    }
    if thorough && check == "C04" {
        // the thorough `pos` slice enumerates all 1364 depth profiles in all four families (5576 programs)
        return Budget { plans: p * 2, scheds: s * 2, pair_cap: c };
    }
    if thorough {
        match mode {
            // enumerating modes grow with the number of positions: variants x2-3 (plans > 1), schedules x2
            PlanMode::FailEnum => Budget { plans: p * 3, scheds: s, pair_cap: c * 2 },
            PlanMode::PanicEnum => Budget { plans: p * 3, scheds: s * 4, pair_cap: c * 2 },
            // async runs cost ~0.03 ms: explore much deeper
            PlanMode::Async => Budget { plans: p * 16, scheds: s * 12, pair_cap: c * 2 },
            _ => Budget { plans: p * 6, scheds: s * 4, pair_cap: c * 2 },
        }
    } else {
        Budget { plans: p, scheds: s, pair_cap: c }
    }
}

// ------------------------------------------------------------------------------------------
// JSON helpers
// ------------------------------------------------------------------------------------------

pub fn plan_to_json(p: &Plan) -> Value {
    json!({
        "input_seed": p.input_seed.to_string(),
        "salt": p.salt.to_string(),
        "fail": p.fail.iter().map(|(e, o)| json!([e, o])).collect::<Vec<_>>(),
        "panic": p.panic.map(|(e, o)| json!([e, o])),
        "deps": p.deps.iter().map(|d| json!([d.w_ev, d.w_occ, d.t_ev, d.t_occ, if d.t_ph == Ph::Arrive { "arrive" } else { "pass" }])).collect::<Vec<_>>(),
        "caller": match &p.caller { CallerName::Main => json!("main"), CallerName::Named(s) => json!(s), CallerName::Unnamed => Value::Null },
        "spoll_pm": p.spoll_pm,
        "swake_pm": p.swake_pm,
        "batch_pm": p.batch_pm,
        "cancel_at": p.cancel_at,
        "stuck": p.stuck.iter().map(|(e, o)| json!([e, o])).collect::<Vec<_>>(),
        "fresh_wakers": p.fresh_wakers,
        "ready_pm": p.ready_pm,
        "ready_seed": p.ready_seed.to_string(),
        "yield_pm": p.yield_pm,
        "migrate_at": p.migrate_at,
    })
}

pub fn plan_from_json(v: &Value) -> Plan {
    let mut p = Plan::default();
    p.input_seed = v["input_seed"].as_str().and_then(|s| s.parse().ok()).unwrap_or(0);
    p.salt = v["salt"].as_str().and_then(|s| s.parse().ok()).unwrap_or(0);
    if let Some(a) = v["fail"].as_array() {
        for x in a {
            p.fail.insert((x[0].as_u64().unwrap_or(0) as u32, x[1].as_u64().unwrap_or(0) as u32));
        }
    }
    if let Some(a) = v["panic"].as_array() {
        p.panic = Some((a[0].as_u64().unwrap_or(0) as u32, a[1].as_u64().unwrap_or(0) as u32));
    }
    if let Some(a) = v["deps"].as_array() {
        for x in a {
            p.deps.push(Dep {
                w_ev: x[0].as_u64().unwrap_or(0) as u32,
                w_occ: x[1].as_u64().unwrap_or(0) as u32,
                t_ev: x[2].as_u64().unwrap_or(0) as u32,
                t_occ: x[3].as_u64().unwrap_or(0) as u32,
                t_ph: if x[4].as_str() == Some("arrive") { Ph::Arrive } else { Ph::Pass },
            });
        }
    }
    p.caller = match &v["caller"] {
        Value::Null => CallerName::Unnamed,
        Value::String(s) if s == "main" => CallerName::Main,
        Value::String(s) => CallerName::Named(s.clone()),
        _ => CallerName::Main,
    };
    p.spoll_pm = v["spoll_pm"].as_u64().unwrap_or(0) as u32;
    p.swake_pm = v["swake_pm"].as_u64().unwrap_or(0) as u32;
    p.batch_pm = v["batch_pm"].as_u64().unwrap_or(0) as u32;
    p.cancel_at = v["cancel_at"].as_u64().map(|x| x as u32);
    p.fresh_wakers = v["fresh_wakers"].as_bool().unwrap_or(false);
    p.ready_pm = v["ready_pm"].as_u64().unwrap_or(0) as u32;
    p.ready_seed = v["ready_seed"].as_str().and_then(|x| x.parse().ok()).unwrap_or(0);
    p.yield_pm = v["yield_pm"].as_u64().unwrap_or(0) as u32;
    p.migrate_at = v["migrate_at"].as_u64().map(|x| x as u32);
    if let Some(a) = v["stuck"].as_array() {
        for x in a {
            p.stuck.insert((x[0].as_u64().unwrap_or(0) as u32, x[1].as_u64().unwrap_or(0) as u32));
        }
    }
    p
}

fn strat_to_json(s: Strat) -> Value {
    match s {
        Strat::Uniform => json!(["uniform", 0]),
        Strat::Pct(d) => json!(["pct", d]),
        Strat::Sticky(p) => json!(["sticky", p]),
        Strat::ChildFirst => json!(["child_first", 0]),
        Strat::ParentFirst => json!(["parent_first", 0]),
        Strat::StarveOne(v) => json!(["starve_one", v]),
        Strat::ReleaseEager => json!(["release_eager", 0]),
        Strat::ReleaseLazy => json!(["release_lazy", 0]),
        Strat::ReleaseOrder(x) => json!(["release_order", x.to_string()]),
    }
}

fn strat_from_json(v: &Value) -> Strat {
    let n = v[1].as_u64().unwrap_or(0) as u32;
    match v[0].as_str().unwrap_or("uniform") {
        "pct" => Strat::Pct(n),
        "sticky" => Strat::Sticky(n),
        "child_first" => Strat::ChildFirst,
        "parent_first" => Strat::ParentFirst,
        "starve_one" => Strat::StarveOne(n),
        "release_eager" => Strat::ReleaseEager,
        "release_lazy" => Strat::ReleaseLazy,
        "release_order" => Strat::ReleaseOrder(v[1].as_str().and_then(|s| s.parse().ok()).unwrap_or(0)),
        _ => Strat::Uniform,
    }
}

fn log_to_json(obs: &Obs, limit: usize) -> Value {
    let mut out = Vec::new();
    for r in obs.log.iter().take(limit) {
        out.push(json!(format!("{} ent={} {:?} ev={} occ={} dg={:x}", r.seq, r.ent as i64 as i32, r.ph, r.ev, r.occ, r.dg & 0xFFFF_FFFF)));
    }
    if obs.log.len() > limit {
        out.push(json!(format!("... {} more records", obs.log.len() - limit)));
    }
    Value::Array(out)
}

// ------------------------------------------------------------------------------------------
// one evaluated run
// ------------------------------------------------------------------------------------------

pub struct Eval {
    pub obs: Obs,
    pub refrun: RefRun,
    pub refnp: RefRun,
    pub sum: oracle::Summary,
    pub codes: Vec<(&'static str, String)>,
    pub reachable: bool,
}

/// Runs references + simulation + oracles. `replay`: decisions to follow (None: PRNG proposes).
/// heartbeat + descriptor of the run in flight, for the wall-clock watchdog
static HEARTBEAT: std::sync::atomic::AtomicU64 = std::sync::atomic::AtomicU64::new(0);
static IN_FLIGHT: std::sync::Mutex<Option<Value>> = std::sync::Mutex::new(None);
pub const WATCHDOG_SECS: u64 = 60;

/// A simulated run that makes no progress for WATCHDOG_SECS of wall-clock time is stuck outside the
/// scheduler's control (e.g. an expansion that spins). It cannot be unwound: report and exit.
fn start_watchdog(replaying: bool) {
    std::thread::spawn(move || {
        let mut last = HEARTBEAT.load(std::sync::atomic::Ordering::SeqCst);
        let mut idle = 0u64;
        loop {
            std::thread::sleep(std::time::Duration::from_secs(1));
            let now = HEARTBEAT.load(std::sync::atomic::Ordering::SeqCst);
            if now != last || IN_FLIGHT.lock().map(|g| g.is_none()).unwrap_or(true) {
                last = now;
                idle = 0;
                continue;
            }
            idle += 1;
            if idle >= WATCHDOG_SECS {
                let d = IN_FLIGHT.lock().ok().and_then(|g| g.clone()).unwrap_or(Value::Null);
                if replaying {
                    println!("{}", json!({"type": "replay", "status": "reproduced", "violation": d["violation"], "note": "the run did not terminate (wall-clock watchdog)"}));
                    std::process::exit(1);
                }
                println!("{}", d);
                std::process::exit(0);
            }
        }
    });
}

fn set_in_flight(check: &str, prog: &Prog, kind: Kind, plan: &Plan, strat: Strat, seed: u64, master: u64, tier: &str) {
    let code = match check {
        "C03" => Some("C03.hang"),
        "C08" => Some("C08.not_concurrent"),
        "C09" => Some("C09.hang"),
        "C18" => Some("C18.hang"),
        _ => None,
    };
    let v = match code {
        Some(c) => json!({
            "type": "violation", "format": 1, "check": check, "property": &c[..3], "violation": c,
            "message": format!("the simulated run made no progress for {} s of wall-clock time: the evaluation does not terminate (stuck outside the scheduler's control)", WATCHDOG_SECS),
            "tier": tier, "master_seed": master, "slice": prog.slice, "program_index": prog.id, "program_hash": hash_str(prog.text).to_string(),
            "program_text": prog.text, "program_size": prog.size, "macro_kind": kind.name(), "plan": plan_to_json(plan), "strategy": strat_to_json(strat),
            "run_seed": seed.to_string(), "schedule": [], "expected": "termination", "observed": "no termination", "log_hash": "0", "watchdog": true,
        }),
        None => json!({"type": "timeout", "check": check, "program_index": prog.id, "macro_kind": kind.name(),
                       "message": "a simulated run did not terminate; not attributable to this check (liveness belongs to C03/C08/C09/C18)"}),
    };
    if let Ok(mut g) = IN_FLIGHT.lock() {
        *g = Some(v);
    }
}

pub fn evaluate(check: &str, prog: &Prog, kind: Kind, plan: &Plan, strat: Strat, seed: u64, replay: Option<Vec<u32>>) -> Eval {
    HEARTBEAT.fetch_add(1, std::sync::atomic::Ordering::SeqCst);
    let mut np = plan.clone();
    np.panic = None;
    let refnp = run_reference(prog, &np);
    let refrun = if plan.panic.is_some() { run_reference(prog, plan) } else { refnp.clone() };
    let reachable = plan.panic.is_none() || refrun.panic_at.is_some();
    let obs = run_sim(prog, kind, plan, strat, seed, replay);
    let sum = oracle::check(prog, kind, plan, &refrun, &refnp, &obs);
    let mut codes = Vec::new();
    for v in &sum.viols {
        if let Some(c) = map_code(check, v) {
            if !codes.iter().any(|(cc, _): &(&'static str, String)| *cc == c) {
                codes.push((c, v.msg.clone()));
            }
        }
    }
    // anchor programs: the reference itself is compared with the hand-written expectation
    if let (Some(exp), true) = (prog.anchor, plan.input_seed == 0 && plan.fail.is_empty() && plan.panic.is_none() && plan.salt == 0) {
        if let Outcome::Value(s) = &refnp.outcome {
            if s != exp {
                codes.push(("HARNESS.anchor_reference_mismatch", format!("reference model yields {} but the hand-written expectation is {}", s, exp)));
            }
        }
    }
    Eval { obs, refrun, refnp, sum, codes, reachable }
}

// ------------------------------------------------------------------------------------------
// statistics
// ------------------------------------------------------------------------------------------

#[derive(Default)]
pub struct Stats {
    pub runs: u64,
    pub ref_runs: u64,
    pub pairs: u64,
    pub programs: BTreeSet<u32>,
    pub sigs: BTreeSet<u64>,
    pub nontrivial_sigs: BTreeSet<u64>,
    pub plans: u64,
    pub decisions_total: u64,
    pub decisions_max: u64,
    pub faults: BTreeMap<&'static str, u64>,
    pub strategies: BTreeMap<&'static str, u64>,
    pub probes: BTreeMap<&'static str, u64>,
    pub outcomes: BTreeMap<&'static str, u64>,
    pub inconclusive: u64,
    pub ambiguous: u64,
    pub unreachable_panics: u64,
    pub by_kind: BTreeMap<&'static str, u64>,
    pub samples: Vec<Value>,
    pub exhaustive_positions: u64,
    /// order-sensitive digest of (program, kind, plan, schedule, event log, outcome) of every run
    pub digest: u64,
}

impl Stats {
    fn bump(m: &mut BTreeMap<&'static str, u64>, k: &'static str, n: u64) {
        *m.entry(k).or_insert(0) += n;
    }
    pub fn to_json(&self) -> Value {
        json!({
            "runs": self.runs,
            "ref_runs": self.ref_runs,
            "pairs": self.pairs,
            "programs": self.programs.len(),
            "distinct": self.sigs.len(),
            "distinct_nontrivial": self.nontrivial_sigs.len(),
            "plans": self.plans,
            "decisions_total": self.decisions_total,
            "decisions_max": self.decisions_max,
            "faults": self.faults,
            "strategies": self.strategies,
            "probes": self.probes,
            "outcomes": self.outcomes,
            "inconclusive": self.inconclusive,
            "ambiguous": self.ambiguous,
            "unreachable_panics": self.unreachable_panics,
            "by_kind": self.by_kind,
            "samples": self.samples,
            "exhaustive_positions": self.exhaustive_positions,
            "digest": self.digest.to_string(),
        })
    }
}

fn record_stats(st: &mut Stats, prog: &Prog, kind: Kind, plan: &Plan, strat: Strat, ev: &Eval, plan_hash: u64) {
    st.runs += 1;
    st.programs.insert(prog.id);
    Stats::bump(&mut st.by_kind, kind.name(), 1);
    let sig = hash_all(&[prog.id as u64, kind as u64, plan_hash, ev.obs.log_hash]);
    st.sigs.insert(sig);
    st.digest = hash_all(&[st.digest, sig, hash_str(&ev.obs.outcome.short()), hash_str(&ev.refrun.outcome.short()), ev.obs.decisions.len() as u64]);
    let nontrivial = if kind.is_concurrent() { ev.obs.alternatives >= 1 && (ev.sum.concurrent_entities >= 2 || ev.obs.max_pending_gates >= 2) } else { true };
    if nontrivial {
        st.nontrivial_sigs.insert(sig);
    }
    let d = ev.obs.decisions.len() as u64;
    st.decisions_total += d;
    if d > st.decisions_max {
        st.decisions_max = d;
    }
    if kind.is_concurrent() {
        Stats::bump(&mut st.strategies, strat.name(), 1);
    }
    let f = &mut st.faults;
    if !plan.fail.is_empty() {
        Stats::bump(f, "F-fail", plan.fail.len() as u64);
    }
    if plan.panic.is_some() && ev.reachable {
        Stats::bump(f, "F-panic", 1);
    }
    if !plan.deps.is_empty() {
        Stats::bump(f, "F-dep", plan.deps.len() as u64);
    }
    if matches!(strat, Strat::StarveOne(_)) && kind.is_concurrent() {
        Stats::bump(f, "F-stall", 1);
    }
    if ev.obs.spolls > 0 {
        Stats::bump(f, "F-spoll", ev.obs.spolls);
    }
    if ev.obs.swakes > 0 {
        Stats::bump(f, "F-swake", ev.obs.swakes);
    }
    if ev.obs.batches > 0 {
        Stats::bump(f, "F-batch", ev.obs.batches);
    }
    if ev.obs.outcome == Outcome::Cancelled {
        Stats::bump(f, "F-cancel", 1);
    }
    if !plan.stuck.is_empty() {
        Stats::bump(f, "F-stuck", 1);
    }
    if plan.fresh_wakers && kind.is_async() {
        Stats::bump(f, "F-waker", 1);
    }
    if ev.obs.ready_now > 0 {
        Stats::bump(f, "F-ready", ev.obs.ready_now);
    }
    if ev.obs.yields > 0 {
        Stats::bump(f, "F-yield", ev.obs.yields);
    }
    if ev.obs.migrated {
        Stats::bump(f, "F-migrate", 1);
    }
    if ev.obs.stale_wakes > 0 {
        Stats::bump(&mut st.probes, "wake_through_stale_waker_ignored", ev.obs.stale_wakes);
    }
    if plan.input_seed != 0 {
        Stats::bump(f, "F-input", 1);
    }
    if plan.caller != CallerName::Main {
        Stats::bump(f, "F-caller", 1);
    }
    let p = &mut st.probes;
    if ev.sum.probe_fail_after_finished {
        Stats::bump(p, "failure_after_lower_branch_finished", 1);
    }
    if !ev.refnp.fail_notes.is_empty() {
        Stats::bump(p, "step_failed", 1);
    }
    if ev.refnp.fail_notes.iter().any(|n| n.3 > 1) {
        Stats::bump(p, "several_branches_fail_in_one_step", 1);
    }
    if ev.obs.max_live >= 3 {
        Stats::bump(p, "three_or_more_threads_live", 1);
    }
    if ev.obs.tasks >= 3 {
        Stats::bump(p, "two_or_more_spawned_tasks", 1);
    }
    if ev.obs.max_pending_gates >= 2 {
        Stats::bump(p, "two_or_more_gates_pending", 1);
    }
    if ev.obs.cancel_with_live_tasks {
        Stats::bump(p, "cancel_with_live_tasks", 1);
    }
    let caller_depth = ev.obs.threads.first().and_then(|t| t.name.as_deref()).map(|n| n.matches("join_").count()).unwrap_or(0);
    if ev.obs.threads.iter().any(|t| t.name.as_deref().map(|n| n.matches("join_").count() >= caller_depth + 2).unwrap_or(false)) {
        Stats::bump(p, "nested_thread_depth_ge2", 1);
    }
    if ev.refnp.events.iter().any(|e| e.tag.len() >= 2) {
        Stats::bump(p, "nested_invocation_event", 1);
    }
    if ev.sum.ambiguous {
        st.ambiguous += 1;
    }
    let o = match &ev.obs.outcome {
        Outcome::Value(_) => "value",
        Outcome::Panic(_) => "panic",
        Outcome::Deadlock => "deadlock",
        Outcome::Hang => "hang",
        Outcome::StepCap => "step_cap",
        Outcome::Cancelled => "cancelled",
    };
    Stats::bump(&mut st.outcomes, o, 1);
    if st.samples.len() < 3 && (st.runs % 97 == 1) {
        st.samples.push(json!({
            "program": prog.id, "slice": prog.slice, "macro": kind.name(), "text": prog.text,
            "plan": plan_to_json(plan), "strategy": strat_to_json(strat),
            "decisions": ev.obs.decisions, "outcome": ev.obs.outcome.short(), "reference": ev.refrun.outcome.short(),
            "events": ev.obs.log.len(),
        }));
    }
}

// ------------------------------------------------------------------------------------------
// plan enumeration per mode
// ------------------------------------------------------------------------------------------

fn plans_for(mode: PlanMode, check: &str, prog: &Prog, kind: Kind, b: Budget, seed: u64, st: &mut Stats) -> Vec<Plan> {
    let mut rng = Rng::new(hash_all(&[seed, prog.id as u64, kind as u64, 0x9]));
    let mut out: Vec<Plan> = Vec::new();
    let threads = kind.is_spawn() && !kind.is_async();
    let _ = check;
    match mode {
        PlanMode::Base | PlanMode::Agree | PlanMode::Cancel => {
            for i in 0..b.plans {
                let mut p = Plan::default();
                if i > 0 {
                    plans::base_inputs(&mut rng, &mut p);
                }
                if i > 0 && rng.chance(if kind.is_try() { 55 } else { 25 }, 100) {
                    let r0 = run_reference(prog, &p);
                    st.ref_runs += 1;
                    let pos = plans::failable_positions(prog, &r0);
                    if !pos.is_empty() {
                        let n = 1 + rng.below(2);
                        for _ in 0..n {
                            p.fail.insert(*rng.pick(&pos));
                        }
                    }
                }
                if kind.is_concurrent() && rng.chance(35, 100) && mode != PlanMode::Agree {
                    let r0 = run_reference(prog, &p);
                    st.ref_runs += 1;
                    p.deps = plans::linear_extension_deps(prog, kind, &r0, None, &mut rng, 50);
                }
                if kind.is_async() && rng.chance(30, 100) {
                    p.spoll_pm = 60;
                    p.swake_pm = 60;
                }
                if kind.is_async() && rng.chance(40, 100) {
                    p.fresh_wakers = true;
                }
                if threads && mode != PlanMode::Agree {
                    p.caller = plans::random_caller(&mut rng);
                }
                if mode == PlanMode::Cancel && kind.is_async() {
                    p.cancel_at = Some(1 + rng.below(12) as u32);
                }
                out.push(p);
            }
        }
        PlanMode::Barrier | PlanMode::Async | PlanMode::Thread => {
            for i in 0..b.plans {
                let mut p = Plan::default();
                if i > 1 {
                    plans::base_inputs(&mut rng, &mut p);
                }
                if i > 2 && kind.is_try() && rng.chance(30, 100) {
                    let r0 = run_reference(prog, &p);
                    st.ref_runs += 1;
                    let pos = plans::failable_positions(prog, &r0);
                    if !pos.is_empty() {
                        p.fail.insert(*rng.pick(&pos));
                    }
                }
                if kind.is_concurrent() {
                    let r0 = run_reference(prog, &p);
                    st.ref_runs += 1;
                    let sel = i % 4;
                    if mode == PlanMode::Thread && (sel == 0 || sel == 2) || (mode != PlanMode::Thread && sel == 2) {
                        let (d, groups) = plans::rendezvous_deps(prog, kind, &r0, None);
                        p.deps = d;
                        if groups > 0 {
                            *st.probes.entry("rendezvous_plans").or_insert(0) += 1;
                        }
                    } else if sel != 3 {
                        p.deps = plans::linear_extension_deps(prog, kind, &r0, None, &mut rng, 70);
                    }
                }
                if kind.is_async() && (mode == PlanMode::Async) && rng.chance(50, 100) {
                    p.spoll_pm = 80;
                    p.swake_pm = 80;
                }
                if kind.is_async() && rng.chance(50, 100) {
                    p.fresh_wakers = true;
                }
                if threads {
                    p.caller = if mode == PlanMode::Thread {
                        // C08 / C17: main, unnamed, and the whole menu of unusual names in turn
                        match i % 4 {
                            0 => CallerName::Main,
                            1 => CallerName::Unnamed,
                            _ => loop {
                                let c = plans::random_caller(&mut rng);
                                if c != CallerName::Main && c != CallerName::Unnamed {
                                    break c;
                                }
                            },
                        }
                    } else {
                        plans::random_caller(&mut rng)
                    };
                }
                out.push(p);
            }
        }
        PlanMode::FailEnum => {
            // base inputs: default, plus seeded variants in the thorough tier
            let variants = if b.plans > 1 { 3 } else { 1 };
            for vi in 0..variants {
                let mut base = Plan::default();
                if vi > 0 {
                    base.input_seed = rng.next() | 1;
                    base.salt = rng.next();
                }
                let r0 = run_reference(prog, &base);
                st.ref_runs += 1;
                let pos = plans::failable_positions(prog, &r0);
                out.push(base.clone());
                // every single position
                for p1 in &pos {
                    let mut p = base.clone();
                    p.fail.insert(*p1);
                    out.push(p);
                }
                st.exhaustive_positions += pos.len() as u64;
                // pairs (capped)
                let mut pairs: Vec<((u32, u32), (u32, u32))> = Vec::new();
                for i in 0..pos.len() {
                    for j in (i + 1)..pos.len() {
                        pairs.push((pos[i], pos[j]));
                    }
                }
                let cap = b.pair_cap as usize;
                if pairs.len() > cap {
                    rng.shuffle(&mut pairs);
                    pairs.truncate(cap);
                }
                for (a, c) in pairs {
                    let mut p = base.clone();
                    p.fail.insert(a);
                    p.fail.insert(c);
                    out.push(p);
                }
                // a few triples
                if pos.len() >= 3 {
                    for _ in 0..(if b.plans > 1 { 12 } else { 3 }) {
                        let mut p = base.clone();
                        for _ in 0..3 {
                            p.fail.insert(*rng.pick(&pos));
                        }
                        out.push(p);
                    }
                }
            }
            if threads {
                for p in out.iter_mut() {
                    p.caller = CallerName::Main;
                }
            }
        }
        PlanMode::PanicEnum => {
            let variants = if b.plans > 1 { 2 } else { 1 };
            for vi in 0..variants {
                let mut base = Plan::default();
                if vi > 0 {
                    base.input_seed = rng.next() | 1;
                    base.salt = rng.next();
                }
                let r0 = run_reference(prog, &base);
                st.ref_runs += 1;
                if !r0.fail_notes.is_empty() {
                    // C18 plans contain no failing step end (see DESIGN §6 C18)
                    continue;
                }
                st.exhaustive_positions += r0.events.len() as u64;
                for (n, e) in r0.events.iter().enumerate() {
                    let mut p = base.clone();
                    p.panic = Some((e.ev, e.occ));
                    // some of the plans also carry dependencies that stall siblings
                    // (not when the panicking expression is an operand expression, `w::mk`: it may be evaluated before the
                    // receiver chain, so the reference order does not tell which events of its branch are still reached)
                    let panic_is_mk = prog.ev(e.ev).map(|m| m.kind == EvKind::Mk).unwrap_or(false);
                    if kind.is_concurrent() && n % 3 == 1 && !panic_is_mk {
                        p.deps = plans::linear_extension_deps(prog, kind, &r0, Some(e), &mut rng, 50);
                    }
                    out.push(p);
                    // sequential and thread-spawning try macros evaluate / join every branch of a step before the
                    // failure check, so a panic must surface even when another branch of that step fails: combine
                    // the panic with one failing position (whether the panic is still reached is decided by the
                    // reference model). Not for the async kinds, where try_join! may legitimately return first.
                    // async kinds: a sibling branch of the panicking one stays pending forever (F-stuck). join!/try_join!
                    // poll the panicking branch anyway, so the panic must still surface; an expansion that first waits for
                    // all branches of the step leaves the caller blocked (observed as a hang).
                    if kind.is_async() && !e.tag.is_empty() && e.tag[0].branch != crate::core::CALLER {
                        let sib: Vec<(u32, u32)> = r0
                            .events
                            .iter()
                            .filter(|x| x.gate && !x.tag.is_empty() && x.tag[0].inv == e.tag[0].inv && x.tag[0].inst == e.tag[0].inst && x.tag[0].step == e.tag[0].step
                                && x.tag[0].branch != e.tag[0].branch && x.tag[0].branch != crate::core::CALLER)
                            .map(|x| (x.ev, x.occ))
                            .collect();
                        if !sib.is_empty() {
                            let mut p3 = base.clone();
                            p3.panic = Some((e.ev, e.occ));
                            p3.stuck.insert(*rng.pick(&sib));
                            out.push(p3);
                        }
                    }
                    // thread kinds: a HIGHER-numbered sibling of the panicking branch blocks for as long as the caller is inside
                    // the macro (it is released once the caller is out). The handles are joined in branch order, so the panic
                    // of the lower-numbered branch reaches the caller without waiting for the sibling; an expansion that first
                    // joins every thread of the step leaves the caller blocked (exact deadlock detection: C18.hang).
                    if kind.is_spawn() && !kind.is_async() && !e.tag.is_empty() && e.tag[0].branch != crate::core::CALLER {
                        let sib: Vec<(u32, u32)> = r0
                            .events
                            .iter()
                            .filter(|x| !x.tag.is_empty() && x.tag[0].inv == e.tag[0].inv && x.tag[0].inst == e.tag[0].inst && x.tag[0].step == e.tag[0].step
                                && x.tag[0].branch != crate::core::CALLER && x.tag[0].branch > e.tag[0].branch)
                            .map(|x| (x.ev, x.occ))
                            .collect();
                        if !sib.is_empty() {
                            let mut p3 = base.clone();
                            p3.panic = Some((e.ev, e.occ));
                            p3.stuck.insert(*rng.pick(&sib));
                            out.push(p3);
                        }
                    }
                    if kind.is_try() && !kind.is_async() {
                        let pos = plans::failable_positions(prog, &r0);
                        let cands: Vec<(u32, u32)> = pos.iter().copied().filter(|q| *q != (e.ev, e.occ)).collect();
                        if !cands.is_empty() {
                            // prefer a failing position of another branch in the same step as the panic
                            let same_step: Vec<(u32, u32)> = cands
                                .iter()
                                .copied()
                                .filter(|q| {
                                    r0.events.iter().any(|x| {
                                        (x.ev, x.occ) == *q && !x.tag.is_empty() && !e.tag.is_empty() && x.tag[0].step == e.tag[0].step && x.tag[0].branch != e.tag[0].branch
                                    })
                                })
                                .collect();
                            let mut p2 = base.clone();
                            p2.panic = Some((e.ev, e.occ));
                            p2.fail.insert(if !same_step.is_empty() && rng.chance(3, 4) { *rng.pick(&same_step) } else { *rng.pick(&cands) });
                            out.push(p2);
                        }
                    }
                }
            }
        }
    }
    // F-ready: in a third of the async plans some or all gate futures complete in their very first poll. Not in the Agree mode:
    // which of several immediately failing branches is seen first legitimately differs between the plain macro (branches polled
    // in index order) and the task-spawning one (tasks polled in the executor's order).
    if kind.is_async() && mode != PlanMode::Agree {
        for p in out.iter_mut() {
            match rng.below(9) {
                0 => p.ready_pm = 1000,
                1 => p.ready_pm = 500,
                2 => p.ready_pm = 200,
                _ => {}
            }
            // F-yield: in a quarter of the async plans 15 % / 50 % / all of the (remaining) gate futures wake themselves inside
            // their first poll and are complete at the next one (combined with F-ready or alone)
            match rng.below(12) {
                0 => p.yield_pm = 1000,
                1 => p.yield_pm = 500,
                2 => p.yield_pm = 150,
                _ => {}
            }
            if p.ready_pm > 0 || p.yield_pm > 0 {
                p.ready_seed = rng.next();
            }
            // F-migrate: in a sixth of the plans of the task-spawning macros the future changes its runtime between two steps
            if kind.is_spawn() && p.cancel_at.is_none() && rng.below(6) == 0 {
                p.migrate_at = Some(2 + rng.below(14) as u32);
            }
        }
    }
    out
}

// ------------------------------------------------------------------------------------------
// minimisation
// ------------------------------------------------------------------------------------------

pub struct Failure {
    pub prog_id: u32,
    pub kind: Kind,
    pub plan: Plan,
    pub strat: Strat,
    pub seed: u64,
    pub decisions: Vec<u32>,
    pub code: &'static str,
    pub msg: String,
}

fn still_fails(check: &str, prog: &Prog, kind: Kind, plan: &Plan, strat: Strat, seed: u64, decisions: &[u32], code: &str) -> Option<Eval> {
    let ev = evaluate(check, prog, kind, plan, strat, seed, Some(decisions.to_vec()));
    if ev.reachable && ev.codes.iter().any(|(c, _)| *c == code) {
        Some(ev)
    } else {
        None
    }
}

pub fn minimise(check: &str, prog: &Prog, f: &mut Failure) -> (Eval, u32) {
    let mut attempts = 0u32;
    let mut best = match still_fails(check, prog, f.kind, &f.plan, f.strat, f.seed, &f.decisions, f.code) {
        Some(e) => e,
        None => {
            // not reproducible under replay: harness error, caller reports it
            return (evaluate(check, prog, f.kind, &f.plan, f.strat, f.seed, Some(f.decisions.clone())), 0);
        }
    };
    macro_rules! try_plan {
        ($p:expr) => {{
            attempts += 1;
            let cand: Plan = $p;
            if let Some(e) = still_fails(check, prog, f.kind, &cand, f.strat, f.seed, &f.decisions, f.code) {
                f.plan = cand;
                best = e;
                true
            } else {
                false
            }
        }};
    }
    // plan items
    if !f.plan.deps.is_empty() {
        let mut c = f.plan.clone();
        c.deps.clear();
        if !try_plan!(c) {
            let mut i = 0;
            while i < f.plan.deps.len() && attempts < 120 {
                let mut c = f.plan.clone();
                c.deps.remove(i);
                if !try_plan!(c) {
                    i += 1;
                }
            }
        }
    }
    if f.plan.spoll_pm != 0 || f.plan.swake_pm != 0 {
        let mut c = f.plan.clone();
        c.spoll_pm = 0;
        c.swake_pm = 0;
        try_plan!(c);
    }
    for pos in f.plan.fail.clone() {
        let mut c = f.plan.clone();
        c.fail.remove(&pos);
        try_plan!(c);
    }
    if !f.plan.stuck.is_empty() {
        let mut c = f.plan.clone();
        c.stuck.clear();
        try_plan!(c);
    }
    if f.plan.fresh_wakers {
        let mut c = f.plan.clone();
        c.fresh_wakers = false;
        try_plan!(c);
    }
    if f.plan.ready_pm != 0 {
        let mut c = f.plan.clone();
        c.ready_pm = 0;
        try_plan!(c);
    }
    if f.plan.yield_pm != 0 {
        let mut c = f.plan.clone();
        c.yield_pm = 0;
        try_plan!(c);
    }
    if f.plan.migrate_at.is_some() {
        let mut c = f.plan.clone();
        c.migrate_at = None;
        try_plan!(c);
    }
    if f.plan.input_seed != 0 {
        let mut c = f.plan.clone();
        c.input_seed = 0;
        try_plan!(c);
    }
    if f.plan.salt != 0 {
        let mut c = f.plan.clone();
        c.salt = 0;
        try_plan!(c);
    }
    if f.plan.caller != CallerName::Main {
        let mut c = f.plan.clone();
        c.caller = CallerName::Main;
        try_plan!(c);
    }
    // schedule: the replayed run records its own decisions; normalise to those
    f.decisions = best.obs.decisions.clone();
    // truncate the tail (missing decisions = "stay on the current entity / lowest option")
    let mut lo = 0usize;
    let mut hi = f.decisions.len();
    while lo < hi && attempts < 220 {
        let mid = (lo + hi) / 2;
        attempts += 1;
        if let Some(e) = still_fails(check, prog, f.kind, &f.plan, f.strat, f.seed, &f.decisions[..mid], f.code) {
            best = e;
            hi = mid;
        } else {
            lo = mid + 1;
        }
    }
    f.decisions.truncate(hi);
    // replace single decisions by the default 0 from the end
    let mut i = f.decisions.len();
    while i > 0 && attempts < 320 {
        i -= 1;
        if f.decisions[i] != 0 {
            let mut d = f.decisions.clone();
            d[i] = 0;
            attempts += 1;
            if let Some(e) = still_fails(check, prog, f.kind, &f.plan, f.strat, f.seed, &d, f.code) {
                f.decisions = d;
                best = e;
            }
        }
    }
    if let Some((_, m)) = best.codes.iter().find(|(c, _)| *c == f.code) {
        f.msg = m.clone();
    }
    (best, attempts)
}

pub fn failure_to_json(check: &str, prog: &Prog, f: &Failure, ev: &Eval, attempts: u32, master_seed: u64, tier: &str) -> Value {
    json!({
        "type": "violation",
        "format": 1,
        "check": check,
        "property": &f.code[..3],
        "violation": f.code,
        "message": f.msg,
        "tier": tier,
        "master_seed": master_seed,
        "slice": prog.slice,
        "program_index": prog.id,
        "program_hash": hash_str(prog.text).to_string(),
        "program_text": prog.text,
        "program_size": prog.size,
        "macro_kind": f.kind.name(),
        "plan": plan_to_json(&f.plan),
        "strategy": strat_to_json(f.strat),
        "run_seed": f.seed.to_string(),
        "schedule": f.decisions,
        "expected": ev.refrun.outcome.short(),
        "observed": ev.obs.outcome.short(),
        "all_codes": ev.codes.iter().map(|(c, m)| json!([c, m])).collect::<Vec<_>>(),
        "event_log": log_to_json(&ev.obs, 400),
        "log_hash": ev.obs.log_hash.to_string(),
        "minimise_attempts": attempts,
    })
}

// ------------------------------------------------------------------------------------------
// the agreement check (C07)
// ------------------------------------------------------------------------------------------

fn passed_multiset(obs: &Obs) -> Vec<(u32, u32, u64)> {
    let mut v: Vec<(u32, u32, u64)> = obs.log.iter().filter(|r| r.ph == Ph::Pass).map(|r| (r.ev, r.occ, r.dg)).collect();
    v.sort_unstable();
    v
}

fn agree_pair(prog: &Prog, st: &mut Stats, seed: u64, b: Budget, out_fail: &mut Vec<(Failure, Value)>) {
    // families present in this program
    for &(spawn_kind, _) in prog.runs.iter() {
        if !spawn_kind.is_spawn() || spawn_kind.is_alias() {
            continue;
        }
        let plain = spawn_kind.plain();
        let alias = Kind::ALL.iter().copied().find(|k| k.is_alias() && k.canonical() == spawn_kind).unwrap();
        let has = |k: Kind| prog.runs.iter().any(|(kk, _)| *kk == k);
        if !has(plain) || !has(alias) {
            continue;
        }
        st.pairs += 1;
        let plans = plans_for(PlanMode::Agree, "C07", prog, spawn_kind, b, seed, st);
        for (pi, plan) in plans.iter().enumerate() {
            st.plans += 1;
            let ph = hash_all(&[pi as u64, plan.input_seed, plan.salt, plan.fail.len() as u64]);
            let e_plain = evaluate("C07", prog, plain, plan, Strat::Uniform, 1, None);
            record_stats(st, prog, plain, plan, Strat::Uniform, &e_plain, ph);
            for j in 0..b.scheds {
                let rs = hash_all(&[seed, prog.id as u64, pi as u64, j as u64, 0xA6]);
                let strat = Strat::from_seed(rs, spawn_kind.is_async());
                let e_spawn = evaluate("C07", prog, spawn_kind, plan, strat, rs, None);
                let e_alias = evaluate("C07", prog, alias, plan, strat, rs, None);
                record_stats(st, prog, spawn_kind, plan, strat, &e_spawn, ph);
                record_stats(st, prog, alias, plan, strat, &e_alias, ph);
                let mut problem: Option<(&'static str, String, Kind, &Eval)> = None;
                if e_spawn.obs.log_hash != e_alias.obs.log_hash || e_spawn.obs.outcome != e_alias.obs.outcome {
                    problem = Some((
                        "C07.alias_log_differs",
                        format!("{} and {} under the same run seed: outcomes {} / {}, log hashes {} / {}", spawn_kind.name(), alias.name(), e_spawn.obs.outcome.short(), e_alias.obs.outcome.short(), e_spawn.obs.log_hash, e_alias.obs.log_hash),
                        alias,
                        &e_alias,
                    ));
                } else {
                    let ambiguous = spawn_kind.is_async() && spawn_kind.is_try() && e_plain.refnp.fail_notes.iter().any(|n| n.3 > 1);
                    let comparable = matches!(e_plain.obs.outcome, Outcome::Value(_) | Outcome::Panic(_)) && matches!(e_spawn.obs.outcome, Outcome::Value(_) | Outcome::Panic(_));
                    if comparable && !ambiguous {
                        let same_outcome = match (&e_plain.obs.outcome, &e_spawn.obs.outcome) {
                            (Outcome::Value(a), Outcome::Value(b)) => a == b,
                            (Outcome::Panic(_), Outcome::Panic(_)) => true,
                            _ => false,
                        };
                        if !same_outcome {
                            problem = Some((
                                "C07.value_differs",
                                format!("{} yields {} but {} yields {}", plain.name(), e_plain.obs.outcome.short(), spawn_kind.name(), e_spawn.obs.outcome.short()),
                                spawn_kind,
                                &e_spawn,
                            ));
                        } else if !(spawn_kind.is_async() && !e_plain.refnp.fail_notes.is_empty()) && matches!(e_plain.obs.outcome, Outcome::Value(_)) {
                            if passed_multiset(&e_plain.obs) != passed_multiset(&e_spawn.obs) {
                                problem = Some((
                                    "C07.branch_trace_differs",
                                    format!("{} and {} evaluated different callback multisets", plain.name(), spawn_kind.name()),
                                    spawn_kind,
                                    &e_spawn,
                                ));
                            }
                        }
                    }
                }
                if let Some((code, msg, k, ev)) = problem {
                    let f = Failure { prog_id: prog.id, kind: k, plan: plan.clone(), strat, seed: rs, decisions: ev.obs.decisions.clone(), code, msg };
                    let j = failure_to_json("C07", prog, &f, ev, 0, seed, "");
                    out_fail.push((f, j));
                    return;
                }
                // async kinds: under the SAME completion order (gates released in an order that depends only on their
                // identity, every notified task polled to quiescence in between) the plain macro, its task-spawning
                // counterpart and the alias must yield the same outcome — also when several branches fail
                if spawn_kind.is_async() {
                    let mut p2 = plan.clone();
                    p2.spoll_pm = 0;
                    p2.swake_pm = 0;
                    let ro = Strat::ReleaseOrder(rs);
                    let a = evaluate("C07", prog, plain, &p2, ro, rs, None);
                    let b2 = evaluate("C07", prog, spawn_kind, &p2, ro, rs, None);
                    let c2 = evaluate("C07", prog, alias, &p2, ro, rs, None);
                    record_stats(st, prog, plain, &p2, ro, &a, ph);
                    record_stats(st, prog, spawn_kind, &p2, ro, &b2, ph);
                    record_stats(st, prog, alias, &p2, ro, &c2, ph);
                    *st.probes.entry("same_completion_order_triples").or_insert(0) += 1;
                    if !a.refnp.fail_notes.is_empty() && a.refnp.fail_notes.iter().any(|n| n.3 > 1) {
                        *st.probes.entry("same_completion_order_with_several_failures").or_insert(0) += 1;
                    }
                    let same = |x: &Outcome, y: &Outcome| match (x, y) {
                        (Outcome::Value(p), Outcome::Value(q)) => p == q,
                        (Outcome::Panic(_), Outcome::Panic(_)) => true,
                        _ => false,
                    };
                    let bad = if !same(&a.obs.outcome, &b2.obs.outcome) {
                        Some((spawn_kind, &b2))
                    } else if !same(&a.obs.outcome, &c2.obs.outcome) {
                        Some((alias, &c2))
                    } else {
                        None
                    };
                    if let Some((k, ev)) = bad {
                        let msg = format!(
                            "under the same completion order (release_order seed {}) {} yields {} but {} yields {}",
                            rs, plain.name(), a.obs.outcome.short(), k.name(), ev.obs.outcome.short()
                        );
                        let f = Failure { prog_id: prog.id, kind: k, plan: p2.clone(), strat: ro, seed: rs, decisions: ev.obs.decisions.clone(), code: "C07.value_differs", msg };
                        let j = failure_to_json("C07", prog, &f, ev, 0, seed, "");
                        out_fail.push((f, j));
                        return;
                    }
                }
            }
        }
    }
}

// ------------------------------------------------------------------------------------------
// main entry
// ------------------------------------------------------------------------------------------

/// plan number `pi` (0..3) of the stub-fidelity cross-check: shared by the simulated side (`names`
/// command) and the real side (fid/fidrt), so that both execute the same inputs
pub fn fidelity_plan(prog: &Prog, ki: usize, pi: u64) -> Plan {
    let mut plan = Plan::default();
    let mut rng = Rng::new(hash_all(&[prog.id as u64, ki as u64, pi]));
    if pi > 0 {
        plan.input_seed = rng.next() | 1;
        plan.salt = rng.next();
    }
    if pi == 2 {
        let r0 = run_reference(prog, &plan);
        let pos = plans::failable_positions(prog, &r0);
        if !pos.is_empty() {
            plan.fail.insert(*rng.pick(&pos));
        }
    }
    plan
}

/// names of the threads that evaluated user code, per (program, thread-spawning kind, fidelity plan)
fn names_cmd(progs: &[&'static Prog]) {
    for prog in progs {
        for (ki, &(kind, _)) in prog.runs.iter().enumerate() {
            if !(kind.is_spawn() && !kind.is_async()) {
                continue;
            }
            for pi in 0..3u64 {
                let plan = fidelity_plan(prog, ki, pi);
                let sim = run_sim(prog, kind, &plan, Strat::ParentFirst, 1, None);
                let mut names: Vec<String> = Vec::new();
                for r in sim.log.iter().filter(|r| r.ph == Ph::Pass) {
                    if let Some(t) = sim.threads.get(r.ent as usize) {
                        let n = t.name.clone().unwrap_or_default();
                        if !names.contains(&n) {
                            names.push(n);
                        }
                    }
                }
                names.sort();
                println!("{}", json!({"type": "names", "program": prog.id, "kind": kind.name(), "pi": pi, "names": names, "outcome": sim.outcome.short()}));
            }
        }
    }
}

fn arg<'a>(args: &'a [String], name: &str) -> Option<&'a str> {
    args.iter().position(|a| a == name).and_then(|i| args.get(i + 1)).map(|s| s.as_str())
}

pub fn main_entry(progs: &[&'static Prog]) {
    std::panic::set_hook(Box::new(|_| {}));
    let args: Vec<String> = std::env::args().collect();
    let cmd = args.get(1).map(|s| s.as_str()).unwrap_or("");
    match cmd {
        "list" => {
            for p in progs {
                println!("{}", json!({"id": p.id, "slice": p.slice, "kinds": p.runs.iter().map(|(k, _)| k.name()).collect::<Vec<_>>(), "size": p.size, "text": p.text}));
            }
        }
        "run" => run_cmd(progs, &args),
        "names" => names_cmd(progs),
        "replay" => replay_cmd(progs, &args),
        _ => {
            eprintln!("usage: <bin> list | run --check Cxx --tier quick|thorough --seed N --shard i/n | replay --file F");
            std::process::exit(2);
        }
    }
}

fn run_cmd(progs: &[&'static Prog], args: &[String]) {
    let check = arg(args, "--check").unwrap_or("ALL").to_string();
    let tier = arg(args, "--tier").unwrap_or("quick").to_string();
    let seed: u64 = arg(args, "--seed").and_then(|s| s.parse().ok()).unwrap_or(1);
    let shard = arg(args, "--shard").unwrap_or("0/1");
    let (si, sn): (u64, u64) = {
        let mut it = shard.split('/');
        (it.next().unwrap().parse().unwrap(), it.next().unwrap().parse().unwrap())
    };
    let only: Option<u32> = arg(args, "--only").and_then(|s| s.parse().ok());
    let scale: f64 = arg(args, "--scale").and_then(|s| s.parse().ok()).unwrap_or(1.0);
    let max_fail: usize = arg(args, "--max-fail").and_then(|s| s.parse().ok()).unwrap_or(4);
    let mode = if check == "C10c" { PlanMode::Cancel } else if check == "C10p" { PlanMode::PanicEnum } else { mode_of(&check) };
    let check_name: &str = if check == "C10c" { "C10" } else { &check };
    let mut b = budget(mode, tier == "thorough", check_name);
    if check == "C10p" {
        // positions are enumerated; two schedules per position are enough for a ledger that does not depend on the order
        b.scheds = if tier == "thorough" { 4 } else { 2 };
    }
    b.plans = ((b.plans as f64) * scale).ceil().max(1.0) as u32;
    b.scheds = ((b.scheds as f64) * scale).ceil().max(1.0) as u32;
    let t0 = std::time::Instant::now();
    let mut st = Stats::default();
    let mut failures: Vec<(Failure, Value)> = Vec::new();
    start_watchdog(false);
    let mut pair_index = 0u64;
    'outer: for prog in progs {
        if let Some(o) = only {
            if prog.id != o {
                continue;
            }
        }
        if mode == PlanMode::Agree {
            pair_index += 1;
            if pair_index % sn != si {
                continue;
            }
            agree_pair(prog, &mut st, seed, b, &mut failures);
            if failures.len() >= max_fail {
                break 'outer;
            }
            continue;
        }
        for &(kind, _) in prog.runs.iter() {
            if !kind_wanted(check_name, kind) {
                continue;
            }
            if mode == PlanMode::Cancel && !kind.is_async() {
                continue;
            }
            pair_index += 1;
            if pair_index % sn != si {
                continue;
            }
            st.pairs += 1;
            let plans = plans_for(mode, check_name, prog, kind, b, seed, &mut st);
            let nsched = if kind.is_concurrent() { b.scheds } else { 1 };
            let mut pair_failed = false;
            // every run of this (program, kind) executed so far in this process: an expansion that keeps state across
            // evaluations (a static in the generated code) makes a violation depend on this history
            let mut history: Vec<Value> = Vec::new();
            for (pi, plan) in plans.iter().enumerate() {
                st.plans += 1;
                let ph = hash_all(&[pi as u64, plan.input_seed, plan.salt, plan.fail.iter().map(|(a, b)| (*a as u64) << 20 ^ *b as u64).sum::<u64>(), plan.panic.map(|(a, b)| (a as u64) << 20 ^ b as u64).unwrap_or(0), plan.deps.len() as u64]);
                for j in 0..nsched {
                    let rs = hash_all(&[seed, prog.id as u64, kind as u64, pi as u64, j as u64]);
                    let strat = if kind.is_concurrent() { Strat::from_seed(rs, kind.is_async()) } else { Strat::ParentFirst };
                    set_in_flight(check_name, prog, kind, plan, strat, rs, seed, &tier);
                    let ev = evaluate(check_name, prog, kind, plan, strat, rs, None);
                    if history.len() < 400 {
                        history.push(json!({"plan": plan_to_json(plan), "strategy": strat_to_json(strat), "run_seed": rs.to_string()}));
                    }
                    st.ref_runs += if plan.panic.is_some() { 2 } else { 1 };
                    if !ev.reachable {
                        st.unreachable_panics += 1;
                        break;
                    }
                    record_stats(&mut st, prog, kind, plan, strat, &ev, ph);
                    if matches!(ev.obs.outcome, Outcome::Deadlock | Outcome::Hang | Outcome::StepCap) && ev.codes.is_empty() {
                        st.inconclusive += 1;
                    }
                    if let Some((code, msg)) = ev.codes.first().cloned() {
                        let mut f = Failure { prog_id: prog.id, kind, plan: plan.clone(), strat, seed: rs, decisions: ev.obs.decisions.clone(), code, msg };
                        let (mev, attempts) = minimise(check_name, prog, &mut f);
                        let reproduced = mev.codes.iter().any(|(c, _)| *c == f.code);
                        let mut j = failure_to_json(check_name, prog, &f, &mev, attempts, seed, &tier);
                        // the failing run itself is the last history entry: keep only what preceded it
                        let mut h = history.clone();
                        h.pop();
                        j["history"] = Value::Array(h);
                        if !reproduced {
                            j["type"] = json!("harness_error");
                            j["message"] = json!(format!("violation {} did not reproduce when its own decision list was replayed: {}", f.code, f.msg));
                        }
                        failures.push((f, j));
                        pair_failed = true;
                        break;
                    }
                }
                if pair_failed {
                    break;
                }
            }
            if failures.len() >= max_fail {
                break 'outer;
            }
        }
    }
    for (_, j) in &failures {
        println!("{}", j);
    }
    let mut sj = st.to_json();
    sj["type"] = json!("stats");
    sj["check"] = json!(check);
    sj["wall_s"] = json!(t0.elapsed().as_secs_f64());
    sj["shard"] = json!(shard);
    println!("{}", sj);
}

fn replay_cmd(progs: &[&'static Prog], args: &[String]) {
    let file = arg(args, "--file").expect("--file");
    let txt = std::fs::read_to_string(file).expect("read replay file");
    let v: Value = serde_json::from_str(&txt).expect("parse replay file");
    let id = v["program_index"].as_u64().unwrap() as u32;
    let prog = match progs.iter().find(|p| p.id == id) {
        Some(p) => p,
        None => {
            println!("{}", json!({"type": "replay", "status": "program_not_in_this_binary"}));
            std::process::exit(4);
        }
    };
    if hash_str(prog.text).to_string() != v["program_hash"].as_str().unwrap_or("") {
        println!("{}", json!({"type": "replay", "status": "program_hash_mismatch", "text": prog.text}));
        std::process::exit(2);
    }
    let kind = Kind::from_name(v["macro_kind"].as_str().unwrap()).unwrap();
    let plan = plan_from_json(&v["plan"]);
    let decisions: Vec<u32> = v["schedule"].as_array().map(|a| a.iter().map(|x| x.as_u64().unwrap() as u32).collect()).unwrap_or_default();
    let check = v["check"].as_str().unwrap_or("ALL").to_string();
    let code = v["violation"].as_str().unwrap_or("").to_string();
    let seed: u64 = v["run_seed"].as_str().and_then(|s| s.parse().ok()).unwrap_or(0);
    if check == "C07" {
        // agreement violations: re-run the pair under the recorded seed
        let strat = Strat::Uniform;
        let ev = evaluate(&check, prog, kind, &plan, strat, seed, Some(decisions.clone()));
        let same = ev.obs.log_hash.to_string() == v["log_hash"].as_str().unwrap_or("");
        println!("{}", json!({"type": "replay", "status": if same { "reproduced" } else { "log_differs" }, "violation": code, "observed": ev.obs.outcome.short(), "log_hash": ev.obs.log_hash.to_string()}));
        std::process::exit(if same { 1 } else { 0 });
    }
    if v["watchdog"].as_bool() == Some(true) {
        start_watchdog(true);
        if let Ok(mut g) = IN_FLIGHT.lock() {
            *g = Some(json!({"violation": code}));
        }
        // the original schedule is unknown (the run never finished): propose it again from the run seed
        let strat = Strat::from_seed(seed, kind.is_async());
        let ev = evaluate(&check, prog, kind, &plan, strat, seed, None);
        println!("{}", json!({"type": "replay", "status": "not_reproduced", "observed": ev.obs.outcome.short()}));
        std::process::exit(0);
    }
    // --hist-last K: first re-execute the last K runs the failing process had made of this (program, kind) before the
    // failing one (same plans, schedules re-proposed from their run seeds): state kept by the expansion across evaluations
    let hist_last: usize = arg(args, "--hist-last").and_then(|s| s.parse().ok()).or_else(|| v["history_needed"].as_u64().map(|x| x as usize)).unwrap_or(0);
    if hist_last > 0 {
        if let Some(h) = v["history"].as_array() {
            let from = h.len().saturating_sub(hist_last);
            for e in &h[from..] {
                let hp = plan_from_json(&e["plan"]);
                let hs: u64 = e["run_seed"].as_str().and_then(|s| s.parse().ok()).unwrap_or(0);
                let _ = evaluate(&check, prog, kind, &hp, strat_from_json(&e["strategy"]), hs, None);
            }
        }
    }
    let ev = evaluate(&check, prog, kind, &plan, Strat::Uniform, seed, Some(decisions));
    let has = ev.codes.iter().any(|(c, _)| *c == code);
    let same_log = ev.obs.log_hash.to_string() == v["log_hash"].as_str().unwrap_or("");
    println!(
        "{}",
        json!({"type": "replay", "status": if has && same_log { "reproduced" } else if has { "reproduced_with_different_log" } else { "not_reproduced" },
               "violation": code, "codes": ev.codes.iter().map(|(c, m)| json!([c, m])).collect::<Vec<_>>(),
               "observed": ev.obs.outcome.short(), "expected": ev.refrun.outcome.short(), "log_hash": ev.obs.log_hash.to_string(),
               "event_log": log_to_json(&ev.obs, 400)})
    );
    std::process::exit(if has { 1 } else { 0 });
}
