//! Static description of a generated program, emitted by the generator next to the code.

use std::future::Future;
use std::pin::Pin;

#[derive(Clone, Copy, Debug, PartialEq, Eq, PartialOrd, Ord)]
pub enum Kind {
    Join,
    JoinSpawn,
    Spawn,
    TryJoin,
    TryJoinSpawn,
    TrySpawn,
    JoinAsync,
    JoinAsyncSpawn,
    AsyncSpawn,
    TryJoinAsync,
    TryJoinAsyncSpawn,
    TryAsyncSpawn,
}

impl Kind {
    pub const ALL: [Kind; 12] = [
        Kind::Join,
        Kind::JoinSpawn,
        Kind::Spawn,
        Kind::TryJoin,
        Kind::TryJoinSpawn,
        Kind::TrySpawn,
        Kind::JoinAsync,
        Kind::JoinAsyncSpawn,
        Kind::AsyncSpawn,
        Kind::TryJoinAsync,
        Kind::TryJoinAsyncSpawn,
        Kind::TryAsyncSpawn,
    ];
    pub fn name(&self) -> &'static str {
        match self {
            Kind::Join => "join",
            Kind::JoinSpawn => "join_spawn",
            Kind::Spawn => "spawn",
            Kind::TryJoin => "try_join",
            Kind::TryJoinSpawn => "try_join_spawn",
            Kind::TrySpawn => "try_spawn",
            Kind::JoinAsync => "join_async",
            Kind::JoinAsyncSpawn => "join_async_spawn",
            Kind::AsyncSpawn => "async_spawn",
            Kind::TryJoinAsync => "try_join_async",
            Kind::TryJoinAsyncSpawn => "try_join_async_spawn",
            Kind::TryAsyncSpawn => "try_async_spawn",
        }
    }
    pub fn from_name(s: &str) -> Option<Kind> {
        Kind::ALL.iter().copied().find(|k| k.name() == s)
    }
    pub fn is_async(&self) -> bool {
        matches!(self, Kind::JoinAsync | Kind::JoinAsyncSpawn | Kind::AsyncSpawn | Kind::TryJoinAsync | Kind::TryJoinAsyncSpawn | Kind::TryAsyncSpawn)
    }
    pub fn is_try(&self) -> bool {
        matches!(self, Kind::TryJoin | Kind::TryJoinSpawn | Kind::TrySpawn | Kind::TryJoinAsync | Kind::TryJoinAsyncSpawn | Kind::TryAsyncSpawn)
    }
    pub fn is_spawn(&self) -> bool {
        !matches!(self, Kind::Join | Kind::TryJoin | Kind::JoinAsync | Kind::TryJoinAsync)
    }
    pub fn is_alias(&self) -> bool {
        matches!(self, Kind::Spawn | Kind::TrySpawn | Kind::AsyncSpawn | Kind::TryAsyncSpawn)
    }
    /// the canonical macro an alias stands for
    pub fn canonical(&self) -> Kind {
        match self {
            Kind::Spawn => Kind::JoinSpawn,
            Kind::TrySpawn => Kind::TryJoinSpawn,
            Kind::AsyncSpawn => Kind::JoinAsyncSpawn,
            Kind::TryAsyncSpawn => Kind::TryJoinAsyncSpawn,
            k => *k,
        }
    }
    /// the plain (non-spawning) counterpart
    pub fn plain(&self) -> Kind {
        match self {
            Kind::JoinSpawn | Kind::Spawn => Kind::Join,
            Kind::TryJoinSpawn | Kind::TrySpawn => Kind::TryJoin,
            Kind::JoinAsyncSpawn | Kind::AsyncSpawn => Kind::JoinAsync,
            Kind::TryJoinAsyncSpawn | Kind::TryAsyncSpawn => Kind::TryJoinAsync,
            k => *k,
        }
    }
    /// more than one entity can run at a time
    pub fn is_concurrent(&self) -> bool {
        self.is_async() || self.is_spawn()
    }
}

pub type AsyncMk = fn() -> Pin<Box<dyn Future<Output = String> + 'static>>;

#[derive(Clone, Copy)]
pub enum RunFn {
    Sync(fn() -> String),
    Async(AsyncMk),
}

#[derive(Clone, Copy, Debug, PartialEq, Eq)]
pub enum EvKind {
    Init,
    Call,
    Cap,
    Handler,
    Joiner,
    /// evaluation of a non-block operand EXPRESSION (`w::mk`): counted (exactly once) and bound to its step, but its position
    /// relative to the receiver chain is not prescribed by any property (`??` evaluates its operand before the receiver)
    Mk,
}

#[derive(Clone, Copy, Debug)]
pub struct EvMeta {
    pub ev: u32,
    pub kind: EvKind,
    /// the plan may make this expression yield None / Err
    pub failable: bool,
    pub inv: u32,
    /// branch index or CALLER
    pub branch: u32,
    /// step in which the expression is written (the step it is *evaluated* in comes from the reference run)
    pub step: u32,
    /// a capture that snapshots a `let` name
    pub snap: bool,
    /// async macros: a synchronous expression of a branch's step-0 chain that is evaluated while the chain is BUILT, i.e.
    /// before the step's joiner polls anything (initial value, synchronous prefix)
    pub eager: bool,
}

#[derive(Clone, Copy, Debug, PartialEq, Eq)]
pub enum HandlerKind {
    None,
    Map,
    AndThen,
    Then,
}

#[derive(Clone, Copy, Debug)]
pub struct InvMeta {
    pub inv: u32,
    /// None: the top-level invocation, whose macro kind varies per run function
    pub kind: Option<Kind>,
    pub branches: u32,
    pub depths: &'static [u32],
    pub handler: HandlerKind,
    pub custom_joiner: bool,
}

pub struct Prog {
    pub id: u32,
    pub slice: &'static str,
    /// the macro body as generated
    pub text: &'static str,
    pub runs: &'static [(Kind, RunFn)],
    pub reference: RunFn,
    pub invs: &'static [InvMeta],
    pub evs: &'static [EvMeta],
    /// rough size (branches x actions) for choosing the smallest failing program
    pub size: u32,
    /// hand-written expectation for anchor programs (default plan), if any
    pub anchor: Option<&'static str>,
}

impl Prog {
    pub fn ev(&self, ev: u32) -> Option<&EvMeta> {
        self.evs.iter().find(|e| e.ev == ev)
    }
    pub fn inv(&self, inv: u32) -> Option<&InvMeta> {
        self.invs.iter().find(|i| i.inv == inv)
    }
    pub fn inv_kind(&self, inv: u32, top: Kind) -> Kind {
        self.inv(inv).and_then(|i| i.kind).unwrap_or(top)
    }
}
