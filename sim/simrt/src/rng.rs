//! SplitMix64: the only source of randomness in the simulator. Everything is derived from
//! one master seed by hashing; logging never draws from it.

#[inline]
pub fn mix64(mut z: u64) -> u64 {
    z = z.wrapping_add(0x9E37_79B9_7F4A_7C15);
    z = (z ^ (z >> 30)).wrapping_mul(0xBF58_476D_1CE4_E5B9);
    z = (z ^ (z >> 27)).wrapping_mul(0x94D0_49BB_1331_11EB);
    z ^ (z >> 31)
}

#[inline]
pub fn mix(a: u64, b: u64) -> u64 {
    mix64(a ^ mix64(b.wrapping_add(0x51_7C_C1_B7_27_22_0A_95)))
}

pub fn hash_all(parts: &[u64]) -> u64 {
    let mut h = 0x243F_6A88_85A3_08D3u64;
    for p in parts {
        h = mix(h, *p);
    }
    h
}

pub fn hash_str(s: &str) -> u64 {
    let mut h = 0xcbf2_9ce4_8422_2325u64;
    for b in s.bytes() {
        h ^= b as u64;
        h = h.wrapping_mul(0x100_0000_01b3);
    }
    mix64(h)
}

#[derive(Clone, Debug)]
pub struct Rng(pub u64);

impl Rng {
    pub fn new(seed: u64) -> Self {
        Rng(mix64(seed ^ 0xA5A5_5A5A_1234_5678))
    }
    #[inline]
    pub fn next(&mut self) -> u64 {
        self.0 = self.0.wrapping_add(0x9E37_79B9_7F4A_7C15);
        let mut z = self.0;
        z = (z ^ (z >> 30)).wrapping_mul(0xBF58_476D_1CE4_E5B9);
        z = (z ^ (z >> 27)).wrapping_mul(0x94D0_49BB_1331_11EB);
        z ^ (z >> 31)
    }
    /// uniform in 0..n (n > 0)
    #[inline]
    pub fn below(&mut self, n: usize) -> usize {
        (self.next() % (n as u64)) as usize
    }
    /// true with probability num/den
    #[inline]
    pub fn chance(&mut self, num: u64, den: u64) -> bool {
        self.next() % den < num
    }
    pub fn pick<'a, T>(&mut self, xs: &'a [T]) -> &'a T {
        &xs[self.below(xs.len())]
    }
    pub fn shuffle<T>(&mut self, xs: &mut [T]) {
        for i in (1..xs.len()).rev() {
            let j = self.below(i + 1);
            xs.swap(i, j);
        }
    }
}
