//! Global run context: plan, event log, ledger, tag stack. One simulated run at a time per
//! process (parallelism is across worker processes), so a single global is sufficient.

use crate::rng::{hash_all, mix};
use std::collections::{BTreeMap, BTreeSet};
use std::sync::{Condvar, Mutex, MutexGuard};

#[derive(Clone, Copy, PartialEq, Eq, Debug)]
pub enum Mode {
    Idle,
    Reference,
    Threads,
    Async,
    /// real threads / real executor, no scheduling (fidelity cross-check)
    Free,
}

/// Record phases / kinds of the event log.
#[derive(Clone, Copy, PartialEq, Eq, Debug, PartialOrd, Ord)]
#[repr(u8)]
pub enum Ph {
    /// user expression evaluated / callback invoked / gate future created
    Create = 0,
    /// callback reached its scheduling point / gate first polled
    Arrive = 1,
    /// callback allowed to proceed / gate produced its value
    Pass = 2,
    /// sim thread spawned (a = child)
    Spawn = 3,
    /// sim thread / task finished (a = entity, b = 1 if panicked)
    Exit = 4,
    /// join() returned (a = target)
    Joined = 5,
    /// task polled (a = task, b = 1 if spurious)
    Poll = 6,
    /// gate released (a = gate)
    Release = 7,
    /// spurious wake (a = gate)
    SWake = 8,
    /// task spawned (a = task)
    TSpawn = 9,
    RootCreated = 10,
    RootFirstPoll = 11,
    RootDone = 12,
    Cancel = 13,
    /// gate dropped while pending (a = gate)
    GateDrop = 14,
    /// deadlock / hang detected here
    Stuck = 15,
    /// F-migrate: the macro's future moved to another runtime (a = new runtime generation)
    Migrate = 16,
}

#[derive(Clone, Debug, PartialEq, Eq)]
pub struct Rec {
    pub seq: u32,
    /// sim entity: thread id (thread mode) or task id (async mode); u32::MAX = unregistered
    pub ent: u32,
    pub ph: Ph,
    pub ev: u32,
    pub occ: u32,
    pub dg: u64,
    /// index into Global.tags (reference mode only, else u32::MAX)
    pub tag: u32,
}

/// (invocation site, invocation instance, branch, step) stack entry. `branch == CALLER`
/// marks code that belongs to the invocation but to no branch (captures, handler, joiner).
#[derive(Clone, Debug, PartialEq, Eq, PartialOrd, Ord, Hash)]
pub struct TagEntry {
    pub inv: u32,
    pub inst: u32,
    pub branch: u32,
    pub step: u32,
}
pub const CALLER: u32 = 0xFFFF;
/// step value for the handler (after all steps)
pub const STEP_HANDLER: u32 = 0xFFFF;

pub type Tag = Vec<TagEntry>;

#[derive(Clone, Debug, PartialEq, Eq)]
pub struct Dep {
    pub w_ev: u32,
    pub w_occ: u32,
    pub t_ev: u32,
    pub t_occ: u32,
    /// Ph::Arrive or Ph::Pass
    pub t_ph: Ph,
}

#[derive(Clone, Debug, PartialEq, Eq)]
pub enum CallerName {
    Main,
    Named(String),
    Unnamed,
}

#[derive(Clone, Debug)]
pub struct Plan {
    /// 0 = defaults: every generated Option/Result is Some/Ok, every Vec has 2 elements
    pub input_seed: u64,
    /// predicate salt
    pub salt: u64,
    /// positions (ev, occ) at which a failable user expression yields None / Err
    pub fail: BTreeSet<(u32, u32)>,
    /// position at which a user expression panics
    pub panic: Option<(u32, u32)>,
    pub deps: Vec<Dep>,
    pub caller: CallerName,
    /// async fault rates (per mille of decisions) and cancellation point
    pub spoll_pm: u32,
    pub swake_pm: u32,
    pub batch_pm: u32,
    pub cancel_at: Option<u32>,
    /// F-stuck: gates that never become ready (async kinds: a branch that stays pending forever) / events that
    /// block their thread for as long as the caller is inside the macro (thread kinds)
    pub stuck: BTreeSet<(u32, u32)>,
    /// F-waker (async kinds): every poll of a task is given a fresh waker and wake-ups through older wakers are ignored
    pub fresh_wakers: bool,
    /// F-ready (async kinds): per-mille of the gate futures that complete in their very first poll
    pub ready_pm: u32,
    pub ready_seed: u64,
    /// F-yield (async kinds): per-mille of the gate futures that, at their first poll, wake THEMSELVES from inside the poll, return
    /// Pending and are complete at the next poll (`yield_now` style); nobody else ever wakes them
    pub yield_pm: u32,
    /// F-migrate (task-spawning async kinds): at the first decision >= this one at which no spawned task is alive, the macro's
    /// future moves to ANOTHER runtime and the old one shuts down (tokio: `Handle::current()` differs from then on; spawning
    /// through a handle of the old runtime yields a cancelled JoinHandle)
    pub migrate_at: Option<u32>,
}

impl Default for Plan {
    fn default() -> Self {
        Plan {
            input_seed: 0,
            salt: 0,
            fail: BTreeSet::new(),
            panic: None,
            deps: Vec::new(),
            caller: CallerName::Main,
            spoll_pm: 0,
            swake_pm: 0,
            batch_pm: 0,
            cancel_at: None,
            stuck: BTreeSet::new(),
            fresh_wakers: false,
            ready_pm: 0,
            ready_seed: 0,
            yield_pm: 0,
            migrate_at: None,
        }
    }
}

#[derive(Clone, Debug, Default)]
pub struct Ledger {
    pub created: u64,
    pub dropped: u64,
    pub live: BTreeSet<u64>,
    pub next_id: u64,
    pub double_drop: u64,
}

pub struct Global {
    pub mode: Mode,
    pub plan: Plan,
    pub log: Vec<Rec>,
    pub occ: BTreeMap<u32, u32>,
    /// (ev, occ, phase) that happened — used for dependency checks
    pub happened: BTreeSet<(u32, u32, u8)>,
    pub ledger: Ledger,
    pub tags: Vec<Tag>,
    pub tagstack: Tag,
    pub inst_counter: BTreeMap<u32, u32>,
    pub sched: Option<crate::thread::Sched>,
    pub unregistered_events: u32,
    /// Mode::Free: names of the real threads that logged events (index = entity id)
    pub free_names: Vec<Option<String>>,
    pub free_ids: Vec<std::thread::ThreadId>,
    /// reference mode: (inv, inst, step, number of failing branches) for every failed step
    pub fail_notes: Vec<(u32, u32, u32, u32)>,
    /// reference mode: renderings the top-level async try macro may legitimately return
    pub alts: Vec<String>,
    /// events that logged while the root future was created but not yet polled
    pub logging: bool,
}

impl Global {
    pub const fn new() -> Self {
        Global {
            mode: Mode::Idle,
            plan: Plan {
                input_seed: 0,
                salt: 0,
                fail: BTreeSet::new(),
                panic: None,
                deps: Vec::new(),
                caller: CallerName::Main,
                spoll_pm: 0,
                swake_pm: 0,
                batch_pm: 0,
                cancel_at: None,
                stuck: BTreeSet::new(),
                fresh_wakers: false,
                ready_pm: 0,
                ready_seed: 0,
                yield_pm: 0,
                migrate_at: None,
            },
            log: Vec::new(),
            occ: BTreeMap::new(),
            happened: BTreeSet::new(),
            ledger: Ledger {
                created: 0,
                dropped: 0,
                live: BTreeSet::new(),
                next_id: 0,
                double_drop: 0,
            },
            tags: Vec::new(),
            tagstack: Vec::new(),
            inst_counter: BTreeMap::new(),
            sched: None,
            unregistered_events: 0,
            free_names: Vec::new(),
            free_ids: Vec::new(),
            fail_notes: Vec::new(),
            alts: Vec::new(),
            logging: true,
        }
    }

    pub fn reset(&mut self, mode: Mode, plan: Plan) {
        self.mode = mode;
        self.plan = plan;
        self.log.clear();
        self.occ.clear();
        self.happened.clear();
        self.ledger = Ledger::default();
        self.tags.clear();
        self.tagstack.clear();
        self.inst_counter.clear();
        self.sched = None;
        self.unregistered_events = 0;
        self.free_names.clear();
        self.free_ids.clear();
        self.fail_notes.clear();
        self.alts.clear();
        self.logging = true;
    }

    pub fn next_occ(&mut self, ev: u32) -> u32 {
        let c = self.occ.entry(ev).or_insert(0);
        let o = *c;
        *c += 1;
        o
    }

    pub fn push(&mut self, ent: u32, ph: Ph, ev: u32, occ: u32, dg: u64) {
        if !self.logging {
            return;
        }
        let tag = if self.mode == Mode::Reference && (ph as u8) <= 2 {
            self.tags.push(self.tagstack.clone());
            (self.tags.len() - 1) as u32
        } else {
            u32::MAX
        };
        let seq = self.log.len() as u32;
        self.log.push(Rec { seq, ent, ph, ev, occ, dg, tag });
        if (ph as u8) <= 2 {
            self.happened.insert((ev, occ, ph as u8));
        }
    }

    /// Mode::Free: entity id of the calling real thread
    pub fn free_ent(&mut self) -> u32 {
        let id = std::thread::current().id();
        if let Some(i) = self.free_ids.iter().position(|x| *x == id) {
            return i as u32;
        }
        self.free_ids.push(id);
        self.free_names.push(std::thread::current().name().map(|s| s.to_string()));
        (self.free_ids.len() - 1) as u32
    }

    pub fn dep_ok(&self, ev: u32, occ: u32) -> bool {
        // F-stuck: the event (thread kinds) / gate (async kinds) never gets through while the macro is being evaluated
        if self.plan.stuck.contains(&(ev, occ)) {
            return false;
        }
        for d in &self.plan.deps {
            if d.w_ev == ev && d.w_occ == occ && !self.happened.contains(&(d.t_ev, d.t_occ, d.t_ph as u8)) {
                return false;
            }
        }
        true
    }
}

pub static G: Mutex<Global> = Mutex::new(Global::new());
pub static CV: Condvar = Condvar::new();

pub fn lock() -> MutexGuard<'static, Global> {
    G.lock().unwrap_or_else(|e| e.into_inner())
}

pub fn log_hash(log: &[Rec]) -> u64 {
    let mut h = 0x1234_5678_9ABC_DEF0u64;
    for r in log {
        h = mix(h, hash_all(&[r.ent as u64, r.ph as u64, r.ev as u64, r.occ as u64, r.dg]));
    }
    h
}
