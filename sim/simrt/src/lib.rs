//! Deterministic simulation runtime for the expansions of the `join` macros.
pub mod chooser;
pub mod core;
pub mod exec;
pub mod rng;
pub mod thread;
pub mod w;
pub mod prog;
pub mod run;
pub mod oracle;
pub mod plans;
pub mod harness;

/// identity macro: `simrt::idm![callback]` / `simrt::idm!(callback)` — a macro call as an operand
#[macro_export]
macro_rules! idm {
    ($e:expr) => {
        $e
    };
}
