//! Oracles: compare one simulated run with the reference model's run(s). Output is a list
//! of *generic* violations; each check maps the generic codes it owns to its `Cxx.*` codes.

use crate::core::{Ph, Plan, TagEntry, CALLER, STEP_HANDLER};
use crate::prog::{EvKind, Kind, Prog};
use crate::run::{Obs, Outcome, RefRun};
use std::collections::BTreeMap;

#[derive(Clone, Debug)]
pub struct Viol {
    /// generic code
    pub g: &'static str,
    pub evk: Option<EvKind>,
    pub msg: String,
}

fn v(g: &'static str, evk: Option<EvKind>, msg: String) -> Viol {
    Viol { g, evk, msg }
}

#[derive(Clone, Debug)]
struct ObsEv {
    /// first record of the event (Create for gates, Arrive otherwise)
    first_seq: u32,
    /// first Arrive record
    arrive_seq: Option<u32>,
    pass_seq: Option<u32>,
    dg: u64,
    ent: u32,
}

pub struct Summary {
    pub viols: Vec<Viol>,
    /// run was cut short legitimately (panic, async early exit, cancel)
    pub cut_short: bool,
    /// value comparison skipped because the reference outcome is ambiguous
    pub ambiguous: bool,
    /// a step failed after a lower-numbered branch had already finished (probe)
    pub probe_fail_after_finished: bool,
    pub concurrent_entities: u32,
}

pub fn is_failure_rendering(s: &str) -> bool {
    s == "None" || s.starts_with("Err(")
}

/// `refrun`: reference under the full plan. `refnp`: reference under the plan without the
/// panic (same object when no panic is planned).
pub fn check(prog: &Prog, kind: Kind, plan: &Plan, refrun: &RefRun, refnp: &RefRun, obs: &Obs) -> Summary {
    let mut out: Vec<Viol> = Vec::new();
    let mut sum = Summary { viols: Vec::new(), cut_short: false, ambiguous: false, probe_fail_after_finished: false, concurrent_entities: 0 };

    // ---- liveness -------------------------------------------------------------------------
    match &obs.outcome {
        Outcome::Deadlock => {
            out.push(v("deadlock", None, "no simulated thread can run although the caller has not finished".into()));
            sum.viols = out;
            return sum;
        }
        Outcome::Hang => {
            out.push(v("hang", None, "root future incomplete, no task notified, no gate releasable".into()));
            sum.viols = out;
            return sum;
        }
        Outcome::StepCap => {
            out.push(v("step_cap", None, "decision cap exceeded".into()));
            sum.viols = out;
            return sum;
        }
        _ => {}
    }

    // ---- observed event table -------------------------------------------------------------
    let mut oev: BTreeMap<(u32, u32), ObsEv> = BTreeMap::new();
    let mut root_created_seq: Option<u32> = None;
    for r in &obs.log {
        match r.ph {
            Ph::Create | Ph::Arrive | Ph::Pass => {
                let e = oev.entry((r.ev, r.occ)).or_insert(ObsEv { first_seq: r.seq, arrive_seq: None, pass_seq: None, dg: r.dg, ent: r.ent });
                if r.ph == Ph::Arrive && e.arrive_seq.is_none() {
                    e.arrive_seq = Some(r.seq);
                }
                if r.ph == Ph::Pass {
                    e.pass_seq = Some(r.seq);
                    e.ent = r.ent;
                }
                if kind.is_async() && root_created_seq.is_none() {
                    out.push(v("not_lazy", prog.ev(r.ev).map(|m| m.kind), format!("event {}#{} evaluated before the macro's future was first polled", r.ev, r.occ)));
                }
            }
            Ph::RootCreated => root_created_seq = Some(r.seq),
            _ => {}
        }
    }
    if obs.unregistered > 0 {
        out.push(v("unregistered_thread", None, format!("{} events came from threads the simulator did not create", obs.unregistered)));
    }

    // ---- ledger ---------------------------------------------------------------------------
    if obs.tokens_live != 0 || obs.double_drop != 0 {
        out.push(v("leak", None, format!("tokens created {} dropped {} still alive {} double drops {}", obs.tokens_created, obs.tokens_dropped, obs.tokens_live, obs.double_drop)));
    }

    if obs.outcome == Outcome::Cancelled {
        sum.cut_short = true;
        // after cancellation: the ledger, "no unknown events", and nothing may run any more except inside tasks that were
        // legitimately spawned (a step with more than one active branch of a task-spawning macro): everything else was owned
        // by the dropped future
        let cancel_seq = obs.log.iter().find(|r| r.ph == Ph::Cancel).map(|r| r.seq).unwrap_or(u32::MAX);
        for ((ev, occ), _) in oev.iter() {
            if !refnp.events.iter().any(|e| e.ev == *ev && e.occ == *occ) {
                out.push(v("events_extra", prog.ev(*ev).map(|m| m.kind), format!("event {}#{} is not in the reference run", ev, occ)));
            }
        }
        let mut flagged = false;
        for r in obs.log.iter().filter(|r| r.seq > cancel_seq && matches!(r.ph, Ph::Create | Ph::Arrive | Ph::Pass)) {
            if flagged {
                break;
            }
            if let Some(e) = refnp.events.iter().find(|e| e.ev == r.ev && e.occ == r.occ) {
                let in_spawned_task = e.tag.iter().any(|t| {
                    let k = prog.inv_kind(t.inv, kind);
                    let active = prog.inv(t.inv).map(|im| im.depths.iter().filter(|d| **d > t.step).count()).unwrap_or(0);
                    k.is_async() && k.is_spawn() && t.branch != CALLER && active > 1
                });
                if !in_spawned_task {
                    flagged = true;
                    out.push(v(
                        "runs_after_cancel",
                        prog.ev(r.ev).map(|m| m.kind),
                        format!("event {}#{} ran (seq {}) after the macro's future was dropped (seq {}) although it does not belong to a spawned task", r.ev, r.occ, r.seq, cancel_seq),
                    ));
                }
            }
        }
        sum.viols = out;
        return sum;
    }

    // ---- outcome --------------------------------------------------------------------------
    let expect_panic = refrun.panic_at.is_some() || matches!(refrun.outcome, Outcome::Panic(_));
    let ref_failed = !refnp.fail_notes.is_empty();
    let top_failed = refnp.fail_notes.iter().any(|n| n.0 == 0);
    let nested_async_multi = refnp.fail_notes.iter().any(|n| {
        n.0 != 0 && n.3 > 1 && prog.inv_kind(n.0, kind).is_async()
    });
    let mut value_ok = true;
    if expect_panic {
        sum.cut_short = true;
        match &obs.outcome {
            Outcome::Panic(_) => {}
            Outcome::Value(o) => {
                value_ok = false;
                out.push(v("no_panic", None, format!("a panic was injected at {:?} but the macro returned {}", plan.panic, o)));
            }
            _ => {}
        }
    } else if let Outcome::Value(s) = &refrun.outcome {
        match &obs.outcome {
            Outcome::Panic(m) => {
                value_ok = false;
                if kind.is_try() && top_failed {
                    out.push(v("panic_instead_of_failure", None, format!("expected {} but the macro panicked: {}", s, m)));
                } else {
                    out.push(v("unexpected_panic", None, format!("expected {} but the macro panicked: {}", s, m)));
                }
            }
            Outcome::Value(o) => {
                if o != s {
                    let async_try = kind.is_async() && kind.is_try();
                    if async_try && top_failed && refnp.alts.iter().any(|a| a == o) {
                        // another branch failing in the same step: allowed for async variants
                    } else if nested_async_multi {
                        sum.ambiguous = true;
                    } else {
                        value_ok = false;
                        let sub = if kind.is_try() && top_failed && !is_failure_rendering(o) {
                            "success instead of failure"
                        } else if kind.is_try() && !top_failed && is_failure_rendering(o) && !is_failure_rendering(s) {
                            "failure instead of success"
                        } else if kind.is_try() && top_failed {
                            "wrong failure / payload"
                        } else {
                            "value"
                        };
                        out.push(v("value", None, format!("{}: expected {} got {}", sub, s, o)));
                    }
                }
            }
            _ => {}
        }
    }
    if kind.is_async() && ref_failed {
        sum.cut_short = true;
    }

    // ---- reference tables -----------------------------------------------------------------
    let mut rindex: BTreeMap<(u32, u32), usize> = BTreeMap::new();
    for (i, e) in refnp.events.iter().enumerate() {
        rindex.insert((e.ev, e.occ), i);
    }

    // probe: failing step after a lower-numbered branch finished
    if let Some(n) = refnp.fail_notes.iter().find(|n| n.0 == 0) {
        if let Some(im) = prog.inv(0) {
            let step = n.2;
            if im.depths.iter().any(|d| *d <= step) {
                sum.probe_fail_after_finished = true;
            }
        }
    }

    // extra events
    for ((ev, occ), _oe) in oev.iter() {
        if !rindex.contains_key(&(*ev, *occ)) {
            let evk = prog.ev(*ev).map(|m| m.kind);
            if ref_failed {
                if evk == Some(EvKind::Handler) {
                    out.push(v("handler_on_failure", evk, format!("handler event {}#{} although a step failed", ev, occ)));
                } else {
                    out.push(v("later_step", evk, format!("event {}#{} evaluated although an earlier step failed", ev, occ)));
                }
            } else {
                out.push(v("events_extra", evk, format!("event {}#{} is not in the reference run", ev, occ)));
            }
        }
    }

    // missing events, argument digests
    // group reference events by full tag for the prefix-closure rule
    let mut missing_in_group: BTreeMap<&Vec<TagEntry>, bool> = BTreeMap::new();
    let mut seen_seg_first: BTreeMap<&Vec<TagEntry>, bool> = BTreeMap::new();
    for e in refnp.events.iter() {
        let evk = prog.ev(e.ev).map(|m| m.kind);
        let first_of_segment = !seen_seg_first.contains_key(&e.tag);
        seen_seg_first.insert(&e.tag, true);
        match oev.get(&(e.ev, e.occ)) {
            Some(oe) if oe.pass_seq.is_some() => {
                if *missing_in_group.get(&e.tag).unwrap_or(&false) && evk != Some(EvKind::Mk) {
                    out.push(v("branch_order", evk, format!("event {}#{} ran although an earlier event of the same branch and step did not", e.ev, e.occ)));
                }
                if oe.dg != e.dg && nested_async_multi {
                    // several branches of a nested async try macro fail in one step: which failure it returns (and so
                    // every digest downstream of it) legitimately depends on the completion order
                    sum.ambiguous = true;
                } else if oe.dg != e.dg {
                    let lineage = first_of_segment && e.tag.last().map(|t| t.step > 0 && t.branch != CALLER).unwrap_or(false);
                    let is_snap = prog.ev(e.ev).map(|m| m.snap).unwrap_or(false);
                    let g = if is_snap {
                        "snapshot"
                    } else if lineage {
                        "lineage"
                    } else {
                        "event_args"
                    };
                    out.push(v(g, evk, format!("event {}#{} saw argument digest {:x}, reference {:x}", e.ev, e.occ, oe.dg, e.dg)));
                }
            }
            _ => {
                missing_in_group.insert(&e.tag, true);
                // Is this event a branch event of a step that failed (of the invocation at some level of its tag)?
                // Only those may legitimately be cut off (async kinds: try_join! drops the siblings of the failed branch);
                // events of earlier steps, and everything the caller evaluates before the branches of the failing step start
                // (block captures, the handler expression), must have happened in every run.
                let in_failing_step = e.tag.iter().any(|t| {
                    t.branch != CALLER && refnp.fail_notes.iter().any(|n| n.0 == t.inv && n.1 == t.inst && n.2 == t.step)
                });
                let in_async_failing_step = e.tag.iter().any(|t| {
                    t.branch != CALLER
                        && prog.inv_kind(t.inv, kind).is_async()
                        && refnp.fail_notes.iter().any(|n| n.0 == t.inv && n.1 == t.inst && n.2 == t.step)
                });
                // async macros build every branch chain of a step BEFORE the joiner polls anything: the synchronous part of a
                // step-0 chain (initial value, synchronous prefix) is evaluated in every run, also when try_join! then returns
                // at the first poll of a failing sibling and never polls this branch
                let eager_unbuilt = in_async_failing_step
                    && !e.gate
                    && e.tag.len() == 1
                    && e.tag[0].step == 0
                    && prog.ev(e.ev).map(|m| m.eager).unwrap_or(false);
                if expect_panic || obs.outcome == Outcome::Cancelled {
                    // cut short by a panic / cancellation: prefix-closure per segment is checked above
                } else if eager_unbuilt {
                    out.push(v("events_missing", evk, format!("event {}#{} is evaluated while its branch's chain is built, before anything is polled, but did not happen", e.ev, e.occ)));
                } else if in_async_failing_step {
                    // legitimately cancelled sibling
                } else if in_failing_step {
                    // sequential / thread-spawning try macros run the failing step to its end
                    out.push(v("failing_step_incomplete", evk, format!("event {}#{} of the failing step did not happen", e.ev, e.occ)));
                } else {
                    out.push(v("events_missing", evk, format!("event {}#{} of the reference run did not happen", e.ev, e.occ)));
                }
            }
        }
    }

    // later step after panic
    if let Some(pa) = &refrun.panic_at {
        for ((ev, occ), oe) in oev.iter() {
            if let Some(&ri) = rindex.get(&(*ev, *occ)) {
                let te = &refnp.events[ri].tag;
                let tp = &pa.tag;
                // deepest common instance
                let mut l = 0;
                while l < te.len() && l < tp.len() && te[l].inv == tp[l].inv && te[l].inst == tp[l].inst {
                    if te[l].step > tp[l].step && oe.first_seq > 0 {
                        out.push(v("later_step_after_panic", prog.ev(*ev).map(|m| m.kind), format!("event {}#{} of step {} ran although step {} panicked", ev, occ, te[l].step, tp[l].step)));
                        break;
                    }
                    if te[l].branch != tp[l].branch || te[l].step != tp[l].step {
                        break;
                    }
                    l += 1;
                }
            }
        }
    }

    // ---- order oracles --------------------------------------------------------------------
    // skip when the value-level comparison already failed under a fault-free plan: tags would be unreliable
    if value_ok || expect_panic {
        order_checks(prog, kind, refnp, &oev, &rindex, &mut out);
    }

    // ---- thread oracle --------------------------------------------------------------------
    if !kind.is_async() {
        thread_checks(prog, kind, refnp, &oev, &rindex, obs, expect_panic, &mut out);
    }

    // token count
    if !sum.cut_short && value_ok && !sum.ambiguous && obs.tokens_created != refnp.tokens_created {
        out.push(v("token_count", None, format!("tokens created {} reference {}", obs.tokens_created, refnp.tokens_created)));
    }

    let mut ents: Vec<u32> = oev.values().map(|e| e.ent).collect();
    ents.sort_unstable();
    ents.dedup();
    sum.concurrent_entities = ents.len() as u32;
    sum.viols = out;
    sum
}

#[derive(Clone, Copy, Debug)]
struct Span {
    min_first: u32,
    max_pass: u32,
    any: bool,
}
impl Span {
    fn new() -> Span {
        Span { min_first: u32::MAX, max_pass: 0, any: false }
    }
    fn add(&mut self, first: u32, pass: Option<u32>) {
        self.any = true;
        if first < self.min_first {
            self.min_first = first;
        }
        let p = pass.unwrap_or(first);
        if p > self.max_pass {
            self.max_pass = p;
        }
    }
}

fn order_checks(
    prog: &Prog,
    kind: Kind,
    refnp: &RefRun,
    oev: &BTreeMap<(u32, u32), ObsEv>,
    rindex: &BTreeMap<(u32, u32), usize>,
    out: &mut Vec<Viol>,
) {
    let _ = rindex;
    // instance key: tag[0..l] plus (inv, inst) of level l, encoded as a Vec<u32>
    // per (instance key, step): spans of branch events and of caller (capture/handler) events
    let mut inst_steps: BTreeMap<(Vec<u32>, u32), (Span, Span, u32, u32)> = BTreeMap::new();
    // per segment key (tag[0..=l]): units in reference order
    #[derive(Clone, Debug)]
    struct Unit {
        id: (u32, u32, u32),
        span: Span,
        is_cap: bool,
        ev: u32,
    }
    let mut seg_units: BTreeMap<Vec<u32>, Vec<Unit>> = BTreeMap::new();
    // task-spawning try invocations in which a step failed: the siblings of the failed branch finish
    // detached, so their events are not ordered against anything outside that invocation
    // (a) the instance itself failed and spawns tasks, or (b) a task-spawning instance (try or not) sits somewhere inside
    // a failed async try instance: try_join! drops the futures of the failed step's siblings, which cancels the nested
    // macro's future but not the tasks it had already spawned
    let failed_async: Vec<(u32, u32)> = refnp.fail_notes.iter().filter(|n| prog.inv_kind(n.0, kind).is_async()).map(|n| (n.0, n.1)).collect();
    let detached_level = |tag: &Vec<TagEntry>| -> Option<usize> {
        let mut best: Option<usize> = None;
        let mut inside_failed = false;
        for (j, t) in tag.iter().enumerate() {
            let k = prog.inv_kind(t.inv, kind);
            let failed_here = failed_async.contains(&(t.inv, t.inst));
            if k.is_async() && k.is_spawn() && (failed_here || inside_failed) {
                best = Some(j);
            }
            if failed_here {
                inside_failed = true;
            }
        }
        best
    };

    for e in refnp.events.iter() {
        let oe = match oev.get(&(e.ev, e.occ)) {
            Some(o) => o,
            None => continue,
        };
        // a gate created inside a block capture starts, as far as its branch is concerned, at its first poll
        // (never polled at all — possible since F-ready: try_join! returned at the first poll of a failing sibling — it has not
        // started as a branch event; only its creation, inside the capture, was seen)
        if e.created_in_capture && oe.arrive_seq.is_none() && oe.pass_seq.is_none() {
            continue;
        }
        let start = if e.created_in_capture { oe.arrive_seq.or(oe.pass_seq).unwrap_or(oe.first_seq) } else { oe.first_seq };
        let oe = &ObsEv { first_seq: start, arrive_seq: oe.arrive_seq, pass_seq: oe.pass_seq, dg: oe.dg, ent: oe.ent };
        let first_detached_level = detached_level(&e.tag);
        let mut key: Vec<u32> = Vec::new();
        for (l, t) in e.tag.iter().enumerate() {
            key.push(t.inv);
            key.push(t.inst);
            if let Some(dl) = first_detached_level {
                if l < dl {
                    key.push(t.branch);
                    key.push(t.step);
                    continue;
                }
            }
            let ent = inst_steps.entry((key.clone(), t.step)).or_insert((Span::new(), Span::new(), e.ev, e.ev));
            if t.branch == CALLER {
                ent.1.add(oe.first_seq, oe.pass_seq);
                ent.3 = e.ev;
            } else {
                ent.0.add(oe.first_seq, oe.pass_seq);
                ent.2 = e.ev;
            }
            key.push(t.branch);
            key.push(t.step);
            // the evaluation of an operand expression is not ordered against the events of its segment
            if l + 1 == e.tag.len() && prog.ev(e.ev).map(|m| m.kind == EvKind::Mk).unwrap_or(false) {
                continue;
            }
            // unit within this segment
            let (uid, is_direct) = if l + 1 == e.tag.len() {
                ((0u32, e.ev, e.occ), true)
            } else {
                ((1u32, e.tag[l + 1].inv, e.tag[l + 1].inst), false)
            };
            let units = seg_units.entry(key.clone()).or_default();
            let is_cap = is_direct && prog.ev(e.ev).map(|m| m.kind == EvKind::Cap).unwrap_or(false);
            match units.last_mut() {
                Some(u) if u.id == uid => u.span.add(oe.first_seq, oe.pass_seq),
                _ => {
                    let mut sp = Span::new();
                    sp.add(oe.first_seq, oe.pass_seq);
                    units.push(Unit { id: uid, span: sp, is_cap, ev: e.ev });
                }
            }
        }
    }

    // barrier between consecutive steps of an instance; captures before branch events
    let mut prev: Option<(&Vec<u32>, u32, Span)> = None;
    for ((ik, step), (bs, cs, bev, cev)) in inst_steps.iter() {
        let mut all = *bs;
        if cs.any {
            all.add(cs.min_first, Some(cs.max_pass));
        }
        if let Some((pk, pstep, pspan)) = &prev {
            if *pk == ik && pspan.any && all.any && pspan.max_pass > all.min_first {
                let involves_cap = cs.any && cs.min_first < pspan.max_pass;
                let g = if involves_cap { "capture_early" } else { "barrier" };
                let sname = if *step == STEP_HANDLER { "handler".to_string() } else { format!("step {}", step) };
                out.push(v(
                    g,
                    None,
                    format!(
                        "invocation {:?}: something of {} started (seq {}) before step {} had finished (seq {})",
                        ik, sname, all.min_first, pstep, pspan.max_pass
                    ),
                ));
            }
        }
        if *step != STEP_HANDLER && bs.any && cs.any && cs.max_pass > bs.min_first {
            out.push(v(
                "capture_late",
                // the caller-side event that came late: a capture, or the joiner (a branch started before the joiner was called:
                // under lazy_branches(true) nothing of a branch may run before the joiner calls its closure)
                Some(prog.ev(*cev).map(|m| m.kind).filter(|k| *k == EvKind::Joiner).unwrap_or(EvKind::Cap)),
                format!("invocation {:?} step {}: capture event {} finished (seq {}) after branch event {} started (seq {})", ik, step, cev, cs.max_pass, bev, bs.min_first),
            ));
        }
        prev = Some((ik, *step, all));
    }

    // sequential order of units within one segment
    for (sk, units) in seg_units.iter() {
        // a unit id may re-appear non-consecutively only for nested instances that are
        // re-entered, which cannot happen (instances are entered once); direct events are unique
        for w in units.windows(2) {
            let (a, b) = (&w[0], &w[1]);
            if a.span.max_pass > b.span.min_first {
                // the caller-side segment of a step (branch == CALLER) holds the step's block captures in branch-then-position
                // order: a block that is just `{ w::init(e) }`, or the value expression after the marker statement, is part of
                // its capture — an order violation there with a capture on either side is a capture-order violation (S-L8: the
                // two block operands of one fold evaluated in reverse)
                let seg_is_caller = sk.len() >= 2 && sk[sk.len() - 2] == CALLER && sk[sk.len() - 1] != STEP_HANDLER;
                let g = if (a.is_cap && b.is_cap) || (seg_is_caller && (a.is_cap || b.is_cap)) { "capture_order" } else { "branch_order" };
                out.push(v(
                    g,
                    prog.ev(b.ev).map(|m| m.kind),
                    format!("segment {:?}: event {} must follow event {} (reference order) but started at seq {} before it finished at seq {}", sk, b.ev, a.ev, b.span.min_first, a.span.max_pass),
                ));
            }
        }
    }
}

#[allow(clippy::too_many_arguments)]
fn thread_checks(
    prog: &Prog,
    kind: Kind,
    refnp: &RefRun,
    oev: &BTreeMap<(u32, u32), ObsEv>,
    rindex: &BTreeMap<(u32, u32), usize>,
    obs: &Obs,
    expect_panic: bool,
    out: &mut Vec<Viol>,
) {
    let _ = rindex;
    // direct events per (instance key, step, branch): set of entities
    // instance key as in order_checks
    let mut seg_ents: BTreeMap<(Vec<u32>, u32, u32), Vec<u32>> = BTreeMap::new();
    let mut inst_inv: BTreeMap<Vec<u32>, u32> = BTreeMap::new();
    // entity running the segment that directly encloses an instance
    let mut encl_ent: BTreeMap<Vec<u32>, Vec<u32>> = BTreeMap::new();
    for e in refnp.events.iter() {
        let oe = match oev.get(&(e.ev, e.occ)) {
            Some(o) if o.pass_seq.is_some() => o,
            _ => continue,
        };
        let mut key: Vec<u32> = Vec::new();
        for (l, t) in e.tag.iter().enumerate() {
            key.push(t.inv);
            key.push(t.inst);
            inst_inv.insert(key.clone(), t.inv);
            if l + 1 == e.tag.len() {
                seg_ents.entry((key.clone(), t.step, t.branch)).or_default().push(oe.ent);
            }
            let mut k2 = key.clone();
            k2.push(t.branch);
            k2.push(t.step);
            key = k2;
        }
        // enclosing entity of nested instances: the direct events of a segment run on the
        // entity that also invokes the instances nested in that segment
        if e.tag.len() >= 1 {
            let mut k: Vec<u32> = Vec::new();
            for t in e.tag.iter() {
                k.push(t.inv);
                k.push(t.inst);
                k.push(t.branch);
                k.push(t.step);
            }
            encl_ent.entry(k).or_default().push(oe.ent);
        }
    }
    for x in seg_ents.values_mut() {
        x.sort_unstable();
        x.dedup();
    }
    for x in encl_ent.values_mut() {
        x.sort_unstable();
        x.dedup();
    }
    // group by (instance, step)
    let mut by_step: BTreeMap<(Vec<u32>, u32), Vec<(u32, Vec<u32>)>> = BTreeMap::new();
    for ((ik, step, branch), ents) in seg_ents.iter() {
        by_step.entry((ik.clone(), *step)).or_default().push((*branch, ents.clone()));
    }
    for ((ik, step), branches) in by_step.iter() {
        let inv = *inst_inv.get(ik).unwrap_or(&0);
        let ikind = prog.inv_kind(inv, kind);
        if ikind.is_async() {
            continue;
        }
        let im = match prog.inv(inv) {
            Some(m) => m,
            None => continue,
        };
        if *step == STEP_HANDLER {
            continue;
        }
        let active = im.depths.iter().filter(|d| **d > *step).count();
        // the invoking entity: top-level = 0; nested = entity of the enclosing segment's direct events
        let invoker: Option<u32> = if ik.len() == 2 {
            Some(0)
        } else {
            let ek = &ik[..ik.len() - 2];
            encl_ent.get(ek).and_then(|v| if v.len() == 1 { Some(v[0]) } else { None })
        };
        let caller_ents: Option<&Vec<u32>> = branches.iter().find(|(b, _)| *b == CALLER).map(|(_, e)| e);
        if let (Some(ce), Some(inv_ent)) = (caller_ents, invoker) {
            if ce.iter().any(|e| *e != inv_ent) {
                out.push(v("capture_off_caller", Some(EvKind::Cap), format!("invocation {:?} step {}: captures ran on entities {:?}, invoking entity {}", ik, step, ce, inv_ent)));
            }
        }
        let spawning = ikind.is_spawn() && active > 1;
        let mut used: Vec<u32> = Vec::new();
        for (b, ents) in branches.iter() {
            if *b == CALLER {
                continue;
            }
            if ents.len() != 1 {
                out.push(v("thread_not_distinct", None, format!("invocation {:?} step {} branch {}: events on several threads {:?}", ik, step, b, ents)));
                continue;
            }
            let e = ents[0];
            if spawning {
                if Some(e) == invoker {
                    out.push(v("thread_not_distinct", None, format!("invocation {:?} step {} branch {} ran on the calling thread although {} branches are active", ik, step, b, active)));
                    continue;
                }
                if used.contains(&e) {
                    out.push(v("thread_not_distinct", None, format!("invocation {:?} step {}: two branches share thread {}", ik, step, e)));
                }
                used.push(e);
                if let Some(ti) = obs.threads.get(e as usize) {
                    let parent = obs.threads.get(ti.parent as usize);
                    if let Some(inv_ent) = invoker {
                        if ti.parent != inv_ent {
                            out.push(v("thread_not_distinct", None, format!("invocation {:?} step {} branch {}: thread {} was spawned by {} not by the invoking thread {}", ik, step, b, e, ti.parent, inv_ent)));
                        }
                    }
                    let expected = match parent.and_then(|p| p.name.clone()) {
                        Some(pn) => format!("{}_join_{}", pn, b),
                        None => format!("join_{}", b),
                    };
                    if ti.name.as_deref() != Some(expected.as_str()) {
                        out.push(v("thread_name", None, format!("invocation {:?} step {} branch {}: thread named {:?}, expected {:?}", ik, step, b, ti.name, expected)));
                    }
                }
            } else if let Some(inv_ent) = invoker {
                if e != inv_ent {
                    out.push(v("single_branch_off_caller", None, format!("invocation {:?} step {} branch {}: ran on thread {} although it is not a multi-branch step of a thread-spawning macro (invoking thread {})", ik, step, b, e, inv_ent)));
                }
            }
        }
    }
    // the spawning thread must not run user code between spawning a thread and that thread's exit
    if !expect_panic {
        let mut spawned_by: BTreeMap<u32, Vec<(u32, u32)>> = BTreeMap::new(); // parent -> (child, spawn seq)
        let mut exit_seq: BTreeMap<u32, u32> = BTreeMap::new();
        for r in &obs.log {
            match r.ph {
                Ph::Spawn => spawned_by.entry(r.ent).or_default().push((r.occ, r.seq)),
                Ph::Exit => {
                    exit_seq.insert(r.occ, r.seq);
                }
                _ => {}
            }
        }
        for r in &obs.log {
            if matches!(r.ph, Ph::Arrive | Ph::Create) {
                if let Some(ch) = spawned_by.get(&r.ent) {
                    for (c, sseq) in ch {
                        if r.seq > *sseq {
                            let ex = exit_seq.get(c).copied().unwrap_or(u32::MAX);
                            if ex > r.seq {
                                out.push(v("caller_continued_before_exit", prog.ev(r.ev).map(|m| m.kind), format!("thread {} evaluated event {}#{} (seq {}) while thread {} it spawned had not finished", r.ent, r.ev, r.occ, r.seq, c)));
                                return;
                            }
                        }
                    }
                }
            }
        }
        // and the macro must not return before all its threads finished
        if let Outcome::Value(_) = obs.outcome {
            if obs.unfinished_at_return > 0 {
                out.push(v("caller_continued_before_exit", None, format!("{} simulated threads were still running when the macro returned", obs.unfinished_at_return)));
            }
        }
    }
}
