//! Thread seam. Same surface as the part of `std::thread` the expansion uses
//! (`Builder::new/name/spawn`, `JoinHandle::join`, `current`). Threads are real, named OS
//! threads, but only the one holding the scheduler's baton runs; every spawn, join,
//! workload call and thread exit is a decision of the seeded scheduler.

use crate::chooser::{Chooser, Opt};
use crate::core::{lock, Global, Mode, Ph, CV};
use std::any::Any;
use std::cell::Cell;
use std::io;
use std::panic::{catch_unwind, AssertUnwindSafe};
use std::sync::{Arc, Mutex, MutexGuard};

pub use std::thread::{available_parallelism, current, panicking, sleep, yield_now, Result, Thread, ThreadId};

thread_local! {
    pub static SIM_TID: Cell<Option<u32>> = const { Cell::new(None) };
}

pub fn sim_tid() -> Option<u32> {
    SIM_TID.with(|c| c.get())
}

#[derive(Clone, Copy, Debug, PartialEq, Eq)]
pub enum ThStatus {
    Runnable,
    BlockedJoin(u32),
    BlockedDep(u32, u32),
    /// the caller after its closure returned, waiting for detached threads to finish
    Draining,
    Finished,
}

#[derive(Clone, Debug)]
pub struct ThInfo {
    pub status: ThStatus,
    pub name: Option<String>,
    pub os_id: Option<ThreadId>,
    pub parent: u32,
    pub panicked: bool,
    pub joined: bool,
}

#[derive(Clone, Copy, Debug, PartialEq, Eq)]
pub enum Abort {
    Deadlock,
    StepCap,
}

pub struct Sched {
    pub threads: Vec<ThInfo>,
    pub current: u32,
    pub chooser: Chooser,
    pub steps: u64,
    pub step_cap: u64,
    pub abort: Option<Abort>,
    pub ignore_deps: bool,
    pub main_done: bool,
    pub os_handles: Vec<std::thread::JoinHandle<()>>,
    pub max_live: u32,
    pub unfinished_at_return: u32,
}

pub const STEP_CAP: u64 = 20_000;

impl Sched {
    pub fn new(chooser: Chooser) -> Self {
        Sched {
            threads: Vec::new(),
            current: 0,
            chooser,
            steps: 0,
            step_cap: STEP_CAP,
            abort: None,
            ignore_deps: false,
            main_done: false,
            os_handles: Vec::new(),
            max_live: 0,
            unfinished_at_return: 0,
        }
    }
}

enum Next {
    Run(u32),
    AllDone,
}

fn enabled_of(g: &Global, s: &Sched, t: &ThInfo) -> bool {
    match t.status {
        ThStatus::Runnable => true,
        ThStatus::BlockedJoin(x) => s.threads[x as usize].status == ThStatus::Finished,
        ThStatus::BlockedDep(ev, occ) => s.ignore_deps || g.dep_ok(ev, occ),
        ThStatus::Draining | ThStatus::Finished => false,
    }
}

fn pick_next(g: &mut Global, me: u32) -> Next {
    // take the scheduler out to keep the borrow checker simple
    let mut s = g.sched.take().expect("no scheduler");
    let res = loop {
        let enabled: Vec<Opt> = s
            .threads
            .iter()
            .enumerate()
            .filter(|(_, t)| enabled_of(g, &s, t))
            .map(|(i, _)| Opt { ent: i as u32, class: 0, key: 0 })
            .collect();
        if enabled.is_empty() {
            let unfinished = s.threads.iter().any(|t| !matches!(t.status, ThStatus::Finished | ThStatus::Draining));
            if !unfinished {
                break Next::AllDone;
            }
            if !s.ignore_deps {
                if !s.main_done && s.abort.is_none() {
                    s.abort = Some(Abort::Deadlock);
                    g.push(me, Ph::Stuck, 0, 0, 0);
                }
                s.ignore_deps = true;
                continue;
            }
            // a cycle of joins: cannot be resolved by the simulator
            eprintln!("FATAL-DEADLOCK: join cycle among simulated threads");
            std::process::exit(3);
        }
        s.steps += 1;
        if s.steps > s.step_cap && s.abort.is_none() {
            s.abort = Some(Abort::StepCap);
        }
        let live = s.threads.iter().filter(|t| !matches!(t.status, ThStatus::Finished | ThStatus::Draining)).count() as u32;
        if live > s.max_live {
            s.max_live = live;
        }
        let idx = s.chooser.choose(&enabled, Some(me));
        break Next::Run(enabled[idx].ent);
    };
    g.sched = Some(s);
    res
}

/// Give up the baton with status `st`; returns when this thread holds it again.
pub(crate) fn sched_yield(mut g: MutexGuard<'static, Global>, me: u32, st: ThStatus) -> MutexGuard<'static, Global> {
    g.sched.as_mut().unwrap().threads[me as usize].status = st;
    match pick_next(&mut g, me) {
        Next::Run(n) => {
            g.sched.as_mut().unwrap().current = n;
            if n != me {
                CV.notify_all();
                while g.sched.as_ref().map(|s| s.current) != Some(me) {
                    g = CV.wait(g).unwrap_or_else(|e| e.into_inner());
                }
            }
        }
        Next::AllDone => {
            // only the draining caller can see this
        }
    }
    if st != ThStatus::Draining {
        g.sched.as_mut().unwrap().threads[me as usize].status = ThStatus::Runnable;
    }
    g
}

fn wait_for_baton(me: u32) {
    let mut g = lock();
    while g.sched.as_ref().map(|s| s.current) != Some(me) {
        g = CV.wait(g).unwrap_or_else(|e| e.into_inner());
    }
}

fn finish_thread(me: u32, panicked: bool) {
    let mut g = lock();
    {
        let s = g.sched.as_mut().unwrap();
        s.threads[me as usize].status = ThStatus::Finished;
        s.threads[me as usize].panicked = panicked;
    }
    g.push(me, Ph::Exit, 0, me, panicked as u64);
    match pick_next(&mut g, me) {
        Next::Run(n) => g.sched.as_mut().unwrap().current = n,
        Next::AllDone => g.sched.as_mut().unwrap().current = 0,
    }
    CV.notify_all();
}

// ------------------------------------------------------------------------------------------
// std::thread look-alike
// ------------------------------------------------------------------------------------------

#[derive(Debug)]
pub struct Builder {
    name: Option<String>,
    stack_size: Option<usize>,
}

impl Builder {
    pub fn new() -> Builder {
        Builder { name: None, stack_size: None }
    }
    pub fn name(mut self, name: String) -> Builder {
        self.name = Some(name);
        self
    }
    pub fn stack_size(mut self, size: usize) -> Builder {
        self.stack_size = Some(size);
        self
    }
    pub fn spawn<F, T>(self, f: F) -> io::Result<JoinHandle<T>>
    where
        F: FnOnce() -> T + Send + 'static,
        T: Send + 'static,
    {
        // SAFETY: 'static closure and result, exactly std's contract
        unsafe { self.spawn_unchecked_(f) }
    }

    /// `std::thread::Builder::spawn_scoped`: the scope waits for the thread before it returns.
    pub fn spawn_scoped<'scope, 'env, F, T>(self, scope: &'scope Scope<'scope, 'env>, f: F) -> io::Result<ScopedJoinHandle<'scope, T>>
    where
        F: FnOnce() -> T + Send + 'scope,
        T: Send + 'scope,
    {
        let panics = scope.real_panics.clone();
        let running = scope.real_running.clone();
        {
            *running.0.lock().unwrap_or_else(|e| e.into_inner()) += 1;
        }
        let in_sim = lock().mode == Mode::Threads && sim_tid().is_some();
        let running2 = running.clone();
        let wrapped = move || {
            struct Done(Arc<(Mutex<usize>, std::sync::Condvar)>);
            impl Drop for Done {
                fn drop(&mut self) {
                    *self.0 .0.lock().unwrap_or_else(|e| e.into_inner()) -= 1;
                    self.0 .1.notify_all();
                }
            }
            let _done = Done(running2);
            if in_sim {
                f()
            } else {
                match catch_unwind(AssertUnwindSafe(f)) {
                    Ok(v) => v,
                    Err(p) => {
                        panics.fetch_add(1, std::sync::atomic::Ordering::SeqCst);
                        std::panic::resume_unwind(p)
                    }
                }
            }
        };
        // SAFETY: `scope()` does not return before every thread spawned through it has finished
        // (simulated threads: blocked join on each; real threads: the running counter), so the
        // borrows of 'scope / 'env outlive the thread.
        let h = match unsafe { self.spawn_unchecked_(wrapped) } {
            Ok(h) => h,
            Err(e) => {
                *running.0.lock().unwrap_or_else(|e| e.into_inner()) -= 1;
                return Err(e);
            }
        };
        if let Inner::Sim { tid, .. } = &h.inner {
            scope.tids.lock().unwrap_or_else(|e| e.into_inner()).push(*tid);
        }
        Ok(ScopedJoinHandle { inner: h, real_panics: scope.real_panics.clone(), _p: std::marker::PhantomData })
    }

    unsafe fn spawn_unchecked_<'a, F, T>(self, f: F) -> io::Result<JoinHandle<T>>
    where
        F: FnOnce() -> T + Send + 'a,
        T: Send + 'a,
    {
        let mode = lock().mode;
        if mode != Mode::Threads {
            // outside a thread simulation behave like std (used by the fidelity cross-check)
            let mut b = std::thread::Builder::new();
            if let Some(n) = self.name {
                b = b.name(n);
            }
            if let Some(s) = self.stack_size {
                b = b.stack_size(s);
            }
            return b.spawn_unchecked(f).map(|h| JoinHandle { inner: Inner::Real(h) });
        }
        let me = match sim_tid() {
            Some(t) => t,
            None => {
                // spawn from a thread the simulator does not know: treat as real
                lock().unregistered_events += 1;
                let mut b = std::thread::Builder::new();
                if let Some(n) = self.name {
                    b = b.name(n);
                }
                return b.spawn_unchecked(f).map(|h| JoinHandle { inner: Inner::Real(h) });
            }
        };
        let slot: Arc<Mutex<Option<std::thread::Result<T>>>> = Arc::new(Mutex::new(None));
        let slot2 = slot.clone();
        let mut g = lock();
        let child = {
            let s = g.sched.as_mut().unwrap();
            s.threads.push(ThInfo {
                status: ThStatus::Runnable,
                name: self.name.clone(),
                os_id: None,
                parent: me,
                panicked: false,
                joined: false,
            });
            (s.threads.len() - 1) as u32
        };
        g.push(me, Ph::Spawn, 0, child, 0);
        let mut b = std::thread::Builder::new().stack_size(self.stack_size.unwrap_or(512 * 1024));
        if let Some(n) = &self.name {
            b = b.name(n.clone());
        }
        let os = b.spawn_unchecked(move || {
            SIM_TID.with(|c| c.set(Some(child)));
            {
                let mut g = lock();
                let id = std::thread::current().id();
                if let Some(s) = g.sched.as_mut() {
                    s.threads[child as usize].os_id = Some(id);
                }
            }
            wait_for_baton(child);
            let r = catch_unwind(AssertUnwindSafe(f));
            let panicked = r.is_err();
            *slot2.lock().unwrap_or_else(|e| e.into_inner()) = Some(r);
            finish_thread(child, panicked);
        })?;
        g.sched.as_mut().unwrap().os_handles.push(os);
        // decision: parent continues, child first, or somebody else
        let g = sched_yield(g, me, ThStatus::Runnable);
        drop(g);
        Ok(JoinHandle { inner: Inner::Sim { tid: child, slot } })
    }
}

impl Default for Builder {
    fn default() -> Self {
        Self::new()
    }
}

pub fn spawn<F, T>(f: F) -> JoinHandle<T>
where
    F: FnOnce() -> T + Send + 'static,
    T: Send + 'static,
{
    Builder::new().spawn(f).expect("failed to spawn thread")
}

enum Inner<T> {
    Real(std::thread::JoinHandle<T>),
    Sim { tid: u32, slot: Arc<Mutex<Option<std::thread::Result<T>>>> },
}

pub struct JoinHandle<T> {
    inner: Inner<T>,
}

impl<T> JoinHandle<T> {
    pub fn join(self) -> std::thread::Result<T> {
        match self.inner {
            Inner::Real(h) => h.join(),
            Inner::Sim { tid, slot } => {
                let me = sim_tid().expect("join() of a simulated thread from an unregistered thread");
                let g = lock();
                let mut g = sched_yield(g, me, ThStatus::BlockedJoin(tid));
                g.sched.as_mut().unwrap().threads[tid as usize].joined = true;
                g.push(me, Ph::Joined, 0, tid, 0);
                drop(g);
                let r = slot.lock().unwrap_or_else(|e| e.into_inner()).take();
                r.expect("simulated thread finished without a result")
            }
        }
    }
    pub fn is_finished(&self) -> bool {
        match &self.inner {
            Inner::Real(h) => h.is_finished(),
            Inner::Sim { tid, .. } => {
                let g = lock();
                g.sched.as_ref().map(|s| s.threads[*tid as usize].status == ThStatus::Finished).unwrap_or(true)
            }
        }
    }
}

// ------------------------------------------------------------------------------------------
// scoped threads (`std::thread::scope`, `Scope::spawn`, `Builder::spawn_scoped`)
// ------------------------------------------------------------------------------------------

pub struct Scope<'scope, 'env: 'scope> {
    tids: Mutex<Vec<u32>>,
    real_running: Arc<(Mutex<usize>, std::sync::Condvar)>,
    real_panics: Arc<std::sync::atomic::AtomicUsize>,
    scope: std::marker::PhantomData<&'scope mut &'scope ()>,
    env: std::marker::PhantomData<&'env mut &'env ()>,
}

pub struct ScopedJoinHandle<'scope, T> {
    inner: JoinHandle<T>,
    real_panics: Arc<std::sync::atomic::AtomicUsize>,
    _p: std::marker::PhantomData<&'scope ()>,
}

impl<'scope, T> ScopedJoinHandle<'scope, T> {
    pub fn join(self) -> std::thread::Result<T> {
        let real = matches!(self.inner.inner, Inner::Real(_));
        let r = self.inner.join();
        if real && r.is_err() {
            // the panic was handed to the caller: the scope does not report it again
            self.real_panics.fetch_sub(1, std::sync::atomic::Ordering::SeqCst);
        }
        r
    }
    pub fn is_finished(&self) -> bool {
        self.inner.is_finished()
    }
}

impl<'scope, 'env> Scope<'scope, 'env> {
    pub fn spawn<F, T>(&'scope self, f: F) -> ScopedJoinHandle<'scope, T>
    where
        F: FnOnce() -> T + Send + 'scope,
        T: Send + 'scope,
    {
        Builder::new().spawn_scoped(self, f).expect("failed to spawn thread")
    }
}

/// `std::thread::scope`: returns only after every thread spawned in the scope has finished; panics
/// if one of them panicked and nobody took its result through `join`.
pub fn scope<'env, F, T>(f: F) -> T
where
    F: for<'scope> FnOnce(&'scope Scope<'scope, 'env>) -> T,
{
    let sc = Scope {
        tids: Mutex::new(Vec::new()),
        real_running: Arc::new((Mutex::new(0), std::sync::Condvar::new())),
        real_panics: Arc::new(std::sync::atomic::AtomicUsize::new(0)),
        scope: std::marker::PhantomData,
        env: std::marker::PhantomData,
    };
    let r = catch_unwind(AssertUnwindSafe(|| f(&sc)));
    // simulated threads: a blocked join on each one that nobody joined
    let tids: Vec<u32> = sc.tids.lock().unwrap_or_else(|e| e.into_inner()).clone();
    let mut unjoined_panic = false;
    if let Some(me) = sim_tid() {
        for tid in tids {
            let mut g = lock();
            if g.sched.is_none() {
                break;
            }
            let fin = g.sched.as_ref().unwrap().threads[tid as usize].status == ThStatus::Finished;
            if !fin {
                g = sched_yield(g, me, ThStatus::BlockedJoin(tid));
            }
            let t = &mut g.sched.as_mut().unwrap().threads[tid as usize];
            if !t.joined {
                t.joined = true;
                if t.panicked {
                    unjoined_panic = true;
                }
                g.push(me, Ph::Joined, 0, tid, 0);
            }
        }
    }
    // real threads (outside a simulation, or spawned from an unregistered thread)
    {
        let (m, cv) = &*sc.real_running;
        let mut n = m.lock().unwrap_or_else(|e| e.into_inner());
        // simulated threads decrement the counter as well; they have all finished by now
        while *n > 0 {
            n = cv.wait(n).unwrap_or_else(|e| e.into_inner());
        }
    }
    if sc.real_panics.load(std::sync::atomic::Ordering::SeqCst) > 0 {
        unjoined_panic = true;
    }
    match r {
        Err(p) => std::panic::resume_unwind(p),
        Ok(_) if unjoined_panic => panic!("a scoped thread panicked"),
        Ok(v) => v,
    }
}

// ------------------------------------------------------------------------------------------
// running a closure as the simulated caller thread
// ------------------------------------------------------------------------------------------

pub struct ThreadRun<R> {
    pub result: std::result::Result<R, Box<dyn Any + Send>>,
    pub abort: Option<Abort>,
    pub decisions: Vec<u32>,
    pub alternatives: u64,
    pub threads: Vec<ThInfo>,
    pub steps: u64,
    pub max_live: u32,
    /// simulated threads not yet finished when the caller's closure returned normally
    pub unfinished_at_return: u32,
}

/// Run `f` as sim thread 0 on a fresh OS thread named per `caller_name`; returns when every
/// simulated thread has finished. Global mode/plan must have been set by the caller.
pub fn run_as_caller<R: Send + 'static>(
    caller_name: Option<String>,
    chooser: Chooser,
    f: impl FnOnce() -> R + Send + 'static,
) -> ThreadRun<R> {
    {
        let mut g = lock();
        let mut s = Sched::new(chooser);
        s.threads.push(ThInfo {
            status: ThStatus::Runnable,
            name: caller_name.clone(),
            os_id: None,
            parent: 0,
            panicked: false,
            joined: false,
        });
        s.current = 0;
        g.sched = Some(s);
    }
    let mut b = std::thread::Builder::new().stack_size(2 * 1024 * 1024);
    if let Some(n) = caller_name {
        b = b.name(n);
    }
    let h = b
        .spawn(move || {
            SIM_TID.with(|c| c.set(Some(0)));
            {
                let mut g = lock();
                let id = std::thread::current().id();
                g.sched.as_mut().unwrap().threads[0].os_id = Some(id);
            }
            let r = catch_unwind(AssertUnwindSafe(f));
            // drain: keep scheduling detached threads until all are finished
            let mut g = lock();
            let unfinished = g.sched.as_ref().unwrap().threads.iter().skip(1).filter(|t| t.status != ThStatus::Finished).count() as u32;
            g.sched.as_mut().unwrap().unfinished_at_return = if r.is_ok() { unfinished } else { 0 };
            g.sched.as_mut().unwrap().main_done = true;
            g.sched.as_mut().unwrap().threads[0].panicked = r.is_err();
            loop {
                let all = g
                    .sched
                    .as_ref()
                    .unwrap()
                    .threads
                    .iter()
                    .skip(1)
                    .all(|t| t.status == ThStatus::Finished);
                if all {
                    break;
                }
                g = sched_yield(g, 0, ThStatus::Draining);
            }
            g.sched.as_mut().unwrap().threads[0].status = ThStatus::Finished;
            drop(g);
            r
        })
        .expect("spawn caller thread");
    let result = h.join().expect("caller wrapper panicked");
    let mut s = lock().sched.take().unwrap();
    for os in s.os_handles.drain(..) {
        let _ = os.join();
    }
    ThreadRun {
        result,
        abort: s.abort,
        decisions: std::mem::take(&mut s.chooser.recorded),
        alternatives: s.chooser.alternatives,
        threads: s.threads,
        steps: s.steps,
        max_live: s.max_live,
        unfinished_at_return: s.unfinished_at_return,
    }
}
