//! Decision making shared by the thread scheduler and the async executor. A run is a pure
//! function of (program, plan, decision list); the PRNG only proposes decision lists.

use crate::rng::Rng;

#[derive(Clone, Copy, Debug, PartialEq, Eq)]
pub enum Strat {
    Uniform,
    /// PCT-style random priorities with `d` priority change points
    Pct(u32),
    /// keep the current entity with probability p/100
    Sticky(u32),
    /// most recently created entity first
    ChildFirst,
    /// oldest entity first
    ParentFirst,
    /// starve entity number (victim % entities) until nothing else is enabled
    StarveOne(u32),
    /// async only: prefer releasing gates over polling
    ReleaseEager,
    /// async only: prefer polling over releasing gates
    ReleaseLazy,
    /// async only: poll every notified task until quiescence (lowest task first), then release the pending gate
    /// with the smallest hash(seed, event, occurrence): the completion order is a function of the seed and of the
    /// gates' identities only, so it is the same for a macro and its task-spawning counterpart
    ReleaseOrder(u64),
}

impl Strat {
    pub fn name(&self) -> &'static str {
        match self {
            Strat::Uniform => "uniform",
            Strat::Pct(_) => "pct",
            Strat::Sticky(_) => "sticky",
            Strat::ChildFirst => "child_first",
            Strat::ParentFirst => "parent_first",
            Strat::StarveOne(_) => "starve_one",
            Strat::ReleaseEager => "release_eager",
            Strat::ReleaseLazy => "release_lazy",
            Strat::ReleaseOrder(_) => "release_order",
        }
    }
    pub fn from_seed(seed: u64, is_async: bool) -> Strat {
        let mut r = Rng::new(seed ^ 0x5757);
        let n = if is_async { 10 } else { 8 };
        match r.below(n) {
            0 | 1 => Strat::Uniform,
            2 => Strat::Pct(1 + r.below(3) as u32),
            3 => Strat::Sticky(50 + r.below(45) as u32),
            4 => Strat::ChildFirst,
            5 => Strat::ParentFirst,
            6 | 7 => Strat::StarveOne(r.below(6) as u32),
            8 => Strat::ReleaseEager,
            _ => Strat::ReleaseLazy,
        }
    }
}

/// One option offered at a decision: the entity it concerns and a class
/// (0 = run/poll an entity, 1 = release a gate, 2 = fault action).
#[derive(Clone, Copy, Debug)]
pub struct Opt {
    pub ent: u32,
    pub class: u8,
    /// identity of the gate for release options: (ev << 32) | occ; 0 otherwise
    pub key: u64,
}

pub struct Chooser {
    pub strat: Strat,
    pub rng: Rng,
    pub replay: Option<Vec<u32>>,
    pub pos: usize,
    pub recorded: Vec<u32>,
    pub alternatives: u64,
    prio: Vec<u64>,
    change_points: Vec<u64>,
    step: u64,
}

impl Chooser {
    pub fn new(strat: Strat, seed: u64, replay: Option<Vec<u32>>) -> Self {
        let mut rng = Rng::new(seed);
        let mut change_points = Vec::new();
        if let Strat::Pct(d) = strat {
            for _ in 0..d {
                change_points.push(rng.next() % 40);
            }
        }
        Chooser { strat, rng, replay, pos: 0, recorded: Vec::new(), alternatives: 0, prio: Vec::new(), change_points, step: 0 }
    }

    fn prio_of(&mut self, ent: u32) -> u64 {
        while self.prio.len() <= ent as usize {
            let p = self.rng.next() | (1 << 63);
            self.prio.push(p);
        }
        self.prio[ent as usize]
    }

    fn default_idx(opts: &[Opt], me: Option<u32>) -> usize {
        me.and_then(|m| opts.iter().position(|o| o.ent == m && o.class == 0)).unwrap_or(0)
    }

    fn replay_pick(&mut self, opts: &[Opt], me: Option<u32>) -> Option<usize> {
        let default_idx = Self::default_idx(opts, me);
        if let Some(rp) = &self.replay {
            let i = if self.pos < rp.len() { rp[self.pos] as usize } else { default_idx };
            self.pos += 1;
            Some(if i < opts.len() { i } else { default_idx })
        } else {
            None
        }
    }

    /// Choose among `opts` (non-empty). `me` is the entity that ran last, if any.
    pub fn choose(&mut self, opts: &[Opt], me: Option<u32>) -> usize {
        debug_assert!(!opts.is_empty());
        self.step += 1;
        if opts.len() > 1 {
            self.alternatives += 1;
        }
        let idx = match self.replay_pick(opts, me) {
            Some(i) => i,
            None => self.strategy_pick(opts, me),
        };
        self.recorded.push(idx as u32);
        idx
    }

    /// As `choose`, but options of class 2 (fault actions) are taken with probability
    /// `fault_pm`/1000 only; otherwise the strategy chooses among the ordinary options.
    pub fn choose_faulty(&mut self, opts: &[Opt], me: Option<u32>, fault_pm: u32) -> usize {
        self.step += 1;
        if opts.iter().filter(|o| o.class != 2).count() > 1 {
            self.alternatives += 1;
        }
        let idx = match self.replay_pick(opts, me) {
            Some(i) => i,
            None => {
                let faults: Vec<usize> = (0..opts.len()).filter(|&i| opts[i].class == 2).collect();
                let normal: Vec<usize> = (0..opts.len()).filter(|&i| opts[i].class != 2).collect();
                if !faults.is_empty() && fault_pm > 0 && (normal.is_empty() || self.rng.chance(fault_pm as u64, 1000)) {
                    faults[self.rng.below(faults.len())]
                } else {
                    let sub: Vec<Opt> = normal.iter().map(|&i| opts[i]).collect();
                    normal[self.strategy_pick(&sub, me)]
                }
            }
        };
        self.recorded.push(idx as u32);
        idx
    }

    fn strategy_pick(&mut self, opts: &[Opt], me: Option<u32>) -> usize {
        let default_idx = Self::default_idx(opts, me);
        {
            match self.strat {
                Strat::Uniform => self.rng.below(opts.len()),
                Strat::Sticky(p) => {
                    if me.is_some() && opts[default_idx].ent == me.unwrap() && self.rng.chance(p as u64, 100) {
                        default_idx
                    } else {
                        self.rng.below(opts.len())
                    }
                }
                Strat::ChildFirst => {
                    let mut best = 0;
                    for (i, o) in opts.iter().enumerate() {
                        if o.ent >= opts[best].ent {
                            best = i;
                        }
                    }
                    best
                }
                Strat::ParentFirst => 0,
                Strat::StarveOne(v) => {
                    let ents: Vec<u32> = {
                        let mut e: Vec<u32> = opts.iter().map(|o| o.ent).collect();
                        e.sort_unstable();
                        e.dedup();
                        e
                    };
                    // victim is chosen among entities >= 1 when possible (0 is the caller / root)
                    let victim = if ents.len() > 1 { ents[1 + (v as usize % (ents.len() - 1))] } else { u32::MAX };
                    let allowed: Vec<usize> = (0..opts.len()).filter(|&i| opts[i].ent != victim).collect();
                    if allowed.is_empty() {
                        self.rng.below(opts.len())
                    } else {
                        allowed[self.rng.below(allowed.len())]
                    }
                }
                Strat::Pct(_) => {
                    let step = self.step;
                    let mut best = 0;
                    let mut bestp = 0u64;
                    for (i, o) in opts.iter().enumerate() {
                        let p = self.prio_of(o.ent).wrapping_add(o.class as u64);
                        if p >= bestp {
                            bestp = p;
                            best = i;
                        }
                    }
                    if self.change_points.contains(&step) {
                        let e = opts[best].ent as usize;
                        // demote below every initial priority
                        self.prio[e] = self.rng.next() >> 2;
                    }
                    best
                }
                Strat::ReleaseEager => {
                    let rel: Vec<usize> = (0..opts.len()).filter(|&i| opts[i].class == 1).collect();
                    if !rel.is_empty() {
                        rel[self.rng.below(rel.len())]
                    } else {
                        self.rng.below(opts.len())
                    }
                }
                Strat::ReleaseOrder(seed) => {
                    let mut best: Option<usize> = None;
                    for (i, o) in opts.iter().enumerate() {
                        if o.class == 0 {
                            best = Some(i);
                            break;
                        }
                    }
                    match best {
                        Some(i) => i,
                        None => {
                            let mut bi = 0;
                            let mut bh = u64::MAX;
                            for (i, o) in opts.iter().enumerate() {
                                let h = crate::rng::mix(seed, o.key);
                                if o.class == 1 && h <= bh {
                                    bh = h;
                                    bi = i;
                                }
                            }
                            bi
                        }
                    }
                }
                Strat::ReleaseLazy => {
                    let pol: Vec<usize> = (0..opts.len()).filter(|&i| opts[i].class == 0).collect();
                    if !pol.is_empty() {
                        pol[self.rng.below(pol.len())]
                    } else {
                        self.rng.below(opts.len())
                    }
                }
            }
        }
    }
}
