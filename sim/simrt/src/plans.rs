//! Plan generation: inputs, failing / panicking positions, dependency edges, faults.

use crate::core::{CallerName, Dep, Ph, Plan, CALLER};
use crate::prog::{Kind, Prog};
use crate::rng::Rng;
use crate::run::{RefEv, RefRun};
use std::collections::BTreeMap;

/// Is the invocation at tag level `l` of event `e` one whose branches run concurrently?
fn level_concurrent(prog: &Prog, top: Kind, e: &RefEv, l: usize) -> bool {
    prog.inv_kind(e.tag[l].inv, top).is_concurrent()
}

/// Does any enclosing (or own) invocation of `e` run on the async executor?
fn in_async(prog: &Prog, top: Kind, e: &RefEv) -> bool {
    e.tag.iter().any(|t| prog.inv_kind(t.inv, top).is_async())
}

/// Per (concurrent invocation instance, step): the per-branch event lists in reference order.
pub fn concurrent_groups<'a>(prog: &Prog, top: Kind, r: &'a RefRun) -> Vec<Vec<Vec<&'a RefEv>>> {
    concurrent_groups_keyed(prog, top, r).into_iter().map(|(_, g)| g).collect()
}

/// A random antichain (no group nested inside another chosen one) of the concurrent groups:
/// edges drawn independently for a group and for a group nested in one of its branches could
/// otherwise contradict each other (two different linear extensions) and form a cycle.
pub fn antichain_groups<'a>(prog: &Prog, top: Kind, r: &'a RefRun, rng: &mut Rng) -> Vec<Vec<Vec<&'a RefEv>>> {
    let mut all = concurrent_groups_keyed(prog, top, r);
    rng.shuffle(&mut all);
    let mut chosen: Vec<(Vec<u32>, Vec<Vec<&RefEv>>)> = Vec::new();
    for (k, g) in all {
        // key = instance path (inv, inst, branch, step, inv, inst, ...) + [step]; nesting = strict prefix of the instance path
        let path = &k[..k.len() - 1];
        let related = chosen.iter().any(|(ck, _)| {
            let cp = &ck[..ck.len() - 1];
            (cp.len() < path.len() && path.starts_with(cp) && path[cp.len()..].len() >= 2 && {
                // same step of the outer instance?
                path[cp.len() + 1] == ck[ck.len() - 1]
            }) || (path.len() < cp.len() && cp.starts_with(path) && cp[path.len() + 1] == k[k.len() - 1])
        });
        if !related {
            chosen.push((k, g));
        }
    }
    chosen.into_iter().map(|(_, g)| g).collect()
}

pub fn concurrent_groups_keyed<'a>(prog: &Prog, top: Kind, r: &'a RefRun) -> Vec<(Vec<u32>, Vec<Vec<&'a RefEv>>)> {
    let mut groups: BTreeMap<(Vec<u32>, u32), BTreeMap<u32, Vec<&RefEv>>> = BTreeMap::new();
    for e in r.events.iter() {
        // the evaluation of an operand expression has no prescribed position inside its branch (`??` evaluates its operand before
        // the receiver chain): it neither waits nor is waited for
        if prog.ev(e.ev).map(|m| m.kind == crate::prog::EvKind::Mk).unwrap_or(false) {
            continue;
        }
        let mut key: Vec<u32> = Vec::new();
        for (l, t) in e.tag.iter().enumerate() {
            key.push(t.inv);
            key.push(t.inst);
            if t.branch != CALLER && level_concurrent(prog, top, e, l) {
                groups.entry((key.clone(), t.step)).or_default().entry(t.branch).or_default().push(e);
            }
            key.push(t.branch);
            key.push(t.step);
        }
    }
    groups
        .into_iter()
        .map(|((mut k, step), m)| {
            k.push(step);
            (k, m.into_values().collect::<Vec<_>>())
        })
        .filter(|(_, bs): &(Vec<u32>, Vec<Vec<&RefEv>>)| bs.len() >= 2)
        .collect()
}

/// Can `e` wait for a dependency? In thread mode every event can; on the async executor
/// only gate futures can (synchronous callbacks run inside a poll).
fn can_wait(prog: &Prog, top: Kind, e: &RefEv) -> bool {
    if in_async(prog, top, e) {
        e.gate
    } else {
        true
    }
}

/// Events that cannot happen once the planned panic fired: everything after the panic
/// position (reference order) within the same top-level (branch, step).
fn unreachable_after_panic(r_panic: Option<&RefEv>, e: &RefEv) -> bool {
    match r_panic {
        None => false,
        Some(p) => {
            !p.tag.is_empty()
                && !e.tag.is_empty()
                && e.seq > p.seq
                && e.tag[0].inv == p.tag[0].inv
                && e.tag[0].inst == p.tag[0].inst
                && e.tag[0].branch == p.tag[0].branch
                && e.tag[0].step == p.tag[0].step
        }
    }
}

/// The target `a` lies in a FAILING step of an async try instance (the reference run notes it) that the waiter `b` is not part
/// of: `try_join!` may drop `a` when a sibling fails, while `b` — outside that instance, possibly in an enclosing macro that
/// recovers from the failure — would wait for it forever.
fn may_be_cut_off(prog: &Prog, top: Kind, r: &RefRun, a: &RefEv, b: &RefEv) -> bool {
    for (l, t) in a.tag.iter().enumerate() {
        if t.branch == CALLER || !prog.inv_kind(t.inv, top).is_async() {
            continue;
        }
        if !r.fail_notes.iter().any(|n| n.0 == t.inv && n.1 == t.inst && n.2 == t.step) {
            continue;
        }
        let b_inside = b.tag.len() > l && b.tag[l].inv == t.inv && b.tag[l].inst == t.inst;
        if !b_inside {
            return true;
        }
    }
    false
}

/// F-dep: edges drawn from a random linear extension of every concurrent step, so that any
/// implementation that runs the step's branches independently can satisfy them.
pub fn linear_extension_deps(prog: &Prog, top: Kind, r: &RefRun, panic_at: Option<&RefEv>, rng: &mut Rng, density_pct: u64) -> Vec<Dep> {
    let mut deps = Vec::new();
    for branches in antichain_groups(prog, top, r, rng) {
        // random merge
        let mut idx: Vec<usize> = vec![0; branches.len()];
        let mut order: Vec<(usize, &RefEv)> = Vec::new();
        loop {
            let avail: Vec<usize> = (0..branches.len()).filter(|&b| idx[b] < branches[b].len()).collect();
            if avail.is_empty() {
                break;
            }
            let b = avail[rng.below(avail.len())];
            order.push((b, branches[b][idx[b]]));
            idx[b] += 1;
        }
        for w in order.windows(2) {
            let ((ba, a), (bb, b)) = (w[0], w[1]);
            if ba == bb {
                continue;
            }
            if !rng.chance(density_pct, 100) {
                continue;
            }
            if !can_wait(prog, top, b) {
                continue;
            }
            if unreachable_after_panic(panic_at, a) {
                continue;
            }
            if may_be_cut_off(prog, top, r, a, b) {
                continue;
            }
            let ph = if rng.chance(1, 2) { Ph::Pass } else { Ph::Arrive };
            // the panicking event never "passes" in a way a sibling may rely on only if it is the
            // panic position itself: its Pass record is logged before the panic fires, so it is safe
            deps.push(Dep { w_ev: b.ev, w_occ: b.occ, t_ev: a.ev, t_occ: a.occ, t_ph: ph });
        }
    }
    deps
}

/// Rendezvous: the first event of every branch of a concurrent step may pass only after all
/// its siblings' first events have arrived — requires all branches to be live at once.
pub fn rendezvous_deps(prog: &Prog, top: Kind, r: &RefRun, panic_at: Option<&RefEv>) -> (Vec<Dep>, u32) {
    let mut deps = Vec::new();
    let mut groups = 0;
    for branches in concurrent_groups(prog, top, r) {
        let firsts: Vec<&RefEv> = branches.iter().map(|b| b[0]).collect();
        if firsts.iter().any(|f| !can_wait(prog, top, f) || unreachable_after_panic(panic_at, f)) {
            continue;
        }
        if firsts.iter().any(|f| firsts.iter().any(|g| may_be_cut_off(prog, top, r, f, g))) {
            continue;
        }
        groups += 1;
        for (i, f) in firsts.iter().enumerate() {
            for (j, g) in firsts.iter().enumerate() {
                if i != j {
                    deps.push(Dep { w_ev: f.ev, w_occ: f.occ, t_ev: g.ev, t_occ: g.occ, t_ph: Ph::Arrive });
                }
            }
        }
    }
    (deps, groups)
}

/// failable positions that occur in the reference run
pub fn failable_positions(prog: &Prog, r: &RefRun) -> Vec<(u32, u32)> {
    r.events.iter().filter(|e| prog.ev(e.ev).map(|m| m.failable).unwrap_or(false)).map(|e| (e.ev, e.occ)).collect()
}

pub fn random_caller(rng: &mut Rng) -> CallerName {
    // the branch threads are named after whatever the caller is called: also names that already look like a branch thread's,
    // the empty name, a non-ASCII name, a name longer than the 15 bytes the OS keeps, a name ending in digits
    match rng.below(14) {
        0 => CallerName::Named("w-7".into()),
        1 | 2 => CallerName::Unnamed,
        3 => CallerName::Named("pool_join_1".into()),
        4 => CallerName::Named(String::new()),
        5 => CallerName::Named("arbeiter-\u{00df}\u{00e4}_join_".into()),
        6 => CallerName::Named("tokio-runtime-worker-blocking-pool-thread-0123456789-abcdefghijklmnopqrstuvwxyz-42".into()),
        7 => CallerName::Named("join_0".into()),
        _ => CallerName::Main,
    }
}

pub fn base_inputs(rng: &mut Rng, plan: &mut Plan) {
    if rng.chance(55, 100) {
        plan.input_seed = rng.next() | 1;
    }
    if rng.chance(70, 100) {
        plan.salt = rng.next();
    }
}
