//! Workload vocabulary. Every user-visible expression of a generated program is one of these
//! calls: it logs an event (with a digest of its argument) and is a scheduling point of the
//! simulator. Constructing a callback is silent; only calling it logs.

use crate::core::{lock, Mode, Ph, TagEntry};
use crate::rng::{mix, mix64};
use crate::thread::{sched_yield, sim_tid, ThStatus};
use std::fmt;

// ------------------------------------------------------------------------------------------
// move-only tokens with a creation/drop ledger
// ------------------------------------------------------------------------------------------

pub struct Tok {
    id: u64,
    pub v: u64,
}
pub struct ETok {
    id: u64,
    pub v: u64,
}

fn ledger_new() -> u64 {
    let mut g = lock();
    let id = g.ledger.next_id;
    g.ledger.next_id += 1;
    g.ledger.created += 1;
    g.ledger.live.insert(id);
    id
}
fn ledger_drop(id: u64) {
    let mut g = lock();
    g.ledger.dropped += 1;
    if !g.ledger.live.remove(&id) {
        g.ledger.double_drop += 1;
    }
}

impl Tok {
    pub fn new(v: u64) -> Tok {
        Tok { id: ledger_new(), v }
    }
}
impl ETok {
    pub fn new(v: u64) -> ETok {
        ETok { id: ledger_new(), v }
    }
}
impl Drop for Tok {
    fn drop(&mut self) {
        ledger_drop(self.id)
    }
}
impl Drop for ETok {
    fn drop(&mut self) {
        ledger_drop(self.id)
    }
}
impl fmt::Debug for Tok {
    fn fmt(&self, f: &mut fmt::Formatter<'_>) -> fmt::Result {
        write!(f, "T{:x}", self.v & 0xFFFF_FFFF)
    }
}
impl fmt::Debug for ETok {
    fn fmt(&self, f: &mut fmt::Formatter<'_>) -> fmt::Result {
        write!(f, "E{:x}", self.v & 0xFFFF_FFFF)
    }
}

// ------------------------------------------------------------------------------------------
// Val: digest + stamp, structural
// ------------------------------------------------------------------------------------------

pub trait Val: Sized {
    fn dg(&self) -> u64;
    fn stamp(self, ev: u32) -> Self;
}

impl Val for Tok {
    fn dg(&self) -> u64 {
        mix(1, self.v)
    }
    fn stamp(mut self, ev: u32) -> Self {
        self.v = mix(self.v, ev as u64);
        self
    }
}
impl Val for ETok {
    fn dg(&self) -> u64 {
        mix(2, self.v)
    }
    fn stamp(mut self, ev: u32) -> Self {
        self.v = mix(self.v, ev as u64);
        self
    }
}
impl<T: Val> Val for Option<T> {
    fn dg(&self) -> u64 {
        match self {
            None => 3,
            Some(x) => mix(4, x.dg()),
        }
    }
    fn stamp(self, ev: u32) -> Self {
        self.map(|x| x.stamp(ev))
    }
}
impl<T: Val, E: Val> Val for Result<T, E> {
    fn dg(&self) -> u64 {
        match self {
            Ok(x) => mix(5, x.dg()),
            Err(e) => mix(6, e.dg()),
        }
    }
    fn stamp(self, ev: u32) -> Self {
        match self {
            Ok(x) => Ok(x.stamp(ev)),
            Err(e) => Err(e.stamp(ev)),
        }
    }
}
impl<T: Val> Val for Vec<T> {
    fn dg(&self) -> u64 {
        let mut h = 11u64;
        for x in self {
            h = mix(h, x.dg());
        }
        h
    }
    fn stamp(self, ev: u32) -> Self {
        self.into_iter().map(|x| x.stamp(ev)).collect()
    }
}
impl<A: Val, B: Val> Val for (A, B) {
    fn dg(&self) -> u64 {
        mix(mix(7, self.0.dg()), self.1.dg())
    }
    fn stamp(self, ev: u32) -> Self {
        (self.0.stamp(ev), self.1.stamp(ev))
    }
}
impl Val for usize {
    fn dg(&self) -> u64 {
        mix(8, *self as u64)
    }
    fn stamp(self, ev: u32) -> Self {
        // small, so that a stamped count / index stays a plausible count / index
        self.wrapping_add(1 + (ev as usize % 7))
    }
}
impl Val for bool {
    fn dg(&self) -> u64 {
        mix(9, *self as u64)
    }
    fn stamp(self, _ev: u32) -> Self {
        self
    }
}
impl Val for () {
    fn dg(&self) -> u64 {
        10
    }
    fn stamp(self, _ev: u32) -> Self {}
}

/// digest through a reference (for handler arguments, snapshots)
pub fn dg<X: Val>(x: &X) -> u64 {
    x.dg()
}

// ------------------------------------------------------------------------------------------
// Rd: rendering of results (token ids elided)
// ------------------------------------------------------------------------------------------

pub trait Rd {
    fn rd(&self) -> String;
}
impl Rd for Tok {
    fn rd(&self) -> String {
        format!("{:?}", self)
    }
}
impl Rd for ETok {
    fn rd(&self) -> String {
        format!("{:?}", self)
    }
}
impl<T: Rd> Rd for Option<T> {
    fn rd(&self) -> String {
        match self {
            None => "None".into(),
            Some(x) => format!("Some({})", x.rd()),
        }
    }
}
impl<T: Rd, E: Rd> Rd for Result<T, E> {
    fn rd(&self) -> String {
        match self {
            Ok(x) => format!("Ok({})", x.rd()),
            Err(e) => format!("Err({})", e.rd()),
        }
    }
}
impl<T: Rd> Rd for Vec<T> {
    fn rd(&self) -> String {
        format!("[{}]", self.iter().map(|x| x.rd()).collect::<Vec<_>>().join(","))
    }
}
impl<A: Rd, B: Rd> Rd for (A, B) {
    fn rd(&self) -> String {
        format!("({},{})", self.0.rd(), self.1.rd())
    }
}
impl Rd for usize {
    fn rd(&self) -> String {
        format!("{}", self)
    }
}
impl Rd for bool {
    fn rd(&self) -> String {
        format!("{}", self)
    }
}
impl Rd for () {
    fn rd(&self) -> String {
        "()".into()
    }
}
impl<T: Rd> Rd for &T {
    fn rd(&self) -> String {
        (*self).rd()
    }
}
pub fn rd<X: Rd>(x: &X) -> String {
    x.rd()
}

// ------------------------------------------------------------------------------------------
// the event primitive
// ------------------------------------------------------------------------------------------

pub const PANIC_MSG: &str = "simrt: injected panic";

/// Logs event `ev` (arrive → scheduling decision → dependency wait → pass). Returns
/// (occurrence, fail?) where fail tells a failable helper to yield None/Err. Panics when the
/// plan injects a panic at this position.
pub fn event(ev: u32, dg: u64) -> (u32, bool) {
    let mut g = lock();
    let occ = g.next_occ(ev);
    match g.mode {
        Mode::Threads => {
            let me = match sim_tid() {
                Some(t) => t,
                None => {
                    g.unregistered_events += 1;
                    g.push(u32::MAX, Ph::Arrive, ev, occ, dg);
                    g.push(u32::MAX, Ph::Pass, ev, occ, dg);
                    let fail = g.plan.fail.contains(&(ev, occ));
                    return (occ, fail);
                }
            };
            g.push(me, Ph::Arrive, ev, occ, dg);
            g = sched_yield(g, me, ThStatus::Runnable);
            loop {
                let ok = g.dep_ok(ev, occ) || g.sched.as_ref().map(|s| s.ignore_deps).unwrap_or(true);
                if ok {
                    break;
                }
                g = sched_yield(g, me, ThStatus::BlockedDep(ev, occ));
            }
            g.push(me, Ph::Pass, ev, occ, dg);
        }
        Mode::Async => {
            let me = crate::exec::current_task();
            g.push(me, Ph::Arrive, ev, occ, dg);
            g.push(me, Ph::Pass, ev, occ, dg);
        }
        Mode::Free => {
            let e = g.free_ent();
            g.push(e, Ph::Arrive, ev, occ, dg);
            g.push(e, Ph::Pass, ev, occ, dg);
        }
        _ => {
            g.push(0, Ph::Arrive, ev, occ, dg);
            g.push(0, Ph::Pass, ev, occ, dg);
        }
    }
    let fail = g.plan.fail.contains(&(ev, occ));
    let panic = g.plan.panic == Some((ev, occ));
    drop(g);
    if panic {
        panic!("{}", PANIC_MSG);
    }
    (occ, fail)
}

// ------------------------------------------------------------------------------------------
// Gen: plan-driven construction of initial values
// ------------------------------------------------------------------------------------------

pub struct GenCtx {
    pub ev: u32,
    pub occ: u32,
    pub top_fail: bool,
    pub input_seed: u64,
    pub base: u64,
}
impl GenCtx {
    fn roll(&self, path: u64, den: u64) -> bool {
        self.input_seed != 0 && mix(mix(self.input_seed, self.ev as u64), path) % den == 0
    }
    fn len(&self, path: u64) -> usize {
        if self.input_seed == 0 {
            2
        } else {
            (mix(mix(self.input_seed, self.ev as u64 ^ 0xABCD), path) % 4) as usize
        }
    }
}
pub const ROOT: u64 = 1;

pub trait Gen: Sized {
    fn gen(c: &GenCtx, path: u64) -> Self;
}
impl Gen for Tok {
    fn gen(c: &GenCtx, path: u64) -> Self {
        Tok::new(mix(mix(c.base, c.ev as u64), mix(path, c.occ as u64)))
    }
}
impl Gen for ETok {
    fn gen(c: &GenCtx, path: u64) -> Self {
        ETok::new(mix(mix(c.base, c.ev as u64 ^ 0xE), mix(path, c.occ as u64)))
    }
}
impl<T: Gen> Gen for Option<T> {
    fn gen(c: &GenCtx, path: u64) -> Self {
        if (path == ROOT && c.top_fail) || (path != ROOT && c.roll(path, 4)) {
            None
        } else {
            Some(T::gen(c, mix(path, 1)))
        }
    }
}
impl<T: Gen, E: Gen> Gen for Result<T, E> {
    fn gen(c: &GenCtx, path: u64) -> Self {
        if (path == ROOT && c.top_fail) || (path != ROOT && c.roll(path, 4)) {
            Err(E::gen(c, mix(path, 2)))
        } else {
            Ok(T::gen(c, mix(path, 1)))
        }
    }
}
impl<T: Gen> Gen for Vec<T> {
    fn gen(c: &GenCtx, path: u64) -> Self {
        let n = c.len(path);
        (0..n).map(|i| T::gen(c, mix(path, 10 + i as u64))).collect()
    }
}
impl<A: Gen, B: Gen> Gen for (A, B) {
    fn gen(c: &GenCtx, path: u64) -> Self {
        (A::gen(c, mix(path, 3)), B::gen(c, mix(path, 4)))
    }
}
impl Gen for usize {
    fn gen(c: &GenCtx, path: u64) -> Self {
        (mix(c.ev as u64, path) % 7) as usize
    }
}
impl Gen for bool {
    fn gen(c: &GenCtx, path: u64) -> Self {
        mix(c.ev as u64, path) & 1 == 0
    }
}
impl Gen for () {
    fn gen(_c: &GenCtx, _path: u64) -> Self {}
}

fn gen_value<T: Gen>(ev: u32, occ: u32, fail: bool, base: u64) -> T {
    let input_seed = lock().plan.input_seed;
    T::gen(&GenCtx { ev, occ, top_fail: fail, input_seed, base }, ROOT)
}

/// initial value / plain operand value
pub fn init<T: Gen>(ev: u32) -> T {
    let (occ, fail) = event(ev, 0);
    gen_value::<T>(ev, occ, fail, 0)
}

/// initial value written as a zero-argument call whose CALLEE is itself a call: `w::init_fn::<T>(e)()`. The event (and the
/// value) belong to the evaluation of the callee expression; calling the result is silent.
pub fn init_fn<T: Gen>(ev: u32) -> impl FnOnce() -> T {
    let v = init::<T>(ev);
    move || v
}

// ------------------------------------------------------------------------------------------
// callbacks
// ------------------------------------------------------------------------------------------

fn salt() -> u64 {
    lock().plan.salt
}

/// stamping callback X -> X
pub fn m<X: Val>(ev: u32) -> impl Fn(X) -> X + Copy + Send + Sync + 'static {
    move |x: X| {
        event(ev, x.dg());
        x.stamp(ev)
    }
}
/// makes the evaluation of an operand expression observable: logs `ev` when evaluated and hands the callback through
pub fn mk<F>(ev: u32, f: F) -> F {
    event(ev, 0);
    f
}
/// usize -> usize, value changing (usize has no stamp): the steps of a Copy-valued branch must be distinguishable
pub fn inc(ev: u32) -> impl Fn(usize) -> usize + Copy + Send + Sync + 'static {
    move |x: usize| {
        event(ev, x.dg());
        (x.wrapping_mul(31).wrapping_add(ev as usize + 7)) % 1_000_003
    }
}
/// identity callback that was BUILT from a Copy value read from a `let` name of another branch: the digest it logs includes it
pub fn seen<X: Val, N: Val + Copy + Send + Sync + 'static>(ev: u32, n: N) -> impl Fn(X) -> X + Copy + Send + Sync + 'static {
    move |x: X| {
        event(ev, mix(x.dg(), n.dg()));
        x.stamp(ev)
    }
}
/// type-changing callback X -> Tok
pub fn flat<X: Val>(ev: u32) -> impl Fn(X) -> Tok + Copy + Send + Sync + 'static {
    move |x: X| {
        let d = x.dg();
        event(ev, d);
        drop(x);
        Tok::new(mix(d, ev as u64))
    }
}
/// X -> Option<X>, fails where the plan says so
pub fn at_o<X: Val>(ev: u32) -> impl Fn(X) -> Option<X> + Copy + Send + Sync + 'static {
    move |x: X| {
        let (_, fail) = event(ev, x.dg());
        if fail {
            None
        } else {
            Some(x.stamp(ev))
        }
    }
}
/// X -> Result<X, ETok>
pub fn at_r<X: Val>(ev: u32) -> impl Fn(X) -> Result<X, ETok> + Copy + Send + Sync + 'static {
    move |x: X| {
        let d = x.dg();
        let (_, fail) = event(ev, d);
        if fail {
            drop(x);
            Err(ETok::new(mix(d, ev as u64)))
        } else {
            Ok(x.stamp(ev))
        }
    }
}
/// () -> Option<X>   (Option::or_else)
pub fn oe_o<X: Gen>(ev: u32) -> impl Fn() -> Option<X> + Copy + Send + Sync + 'static {
    move || {
        let (occ, fail) = event(ev, 0);
        if fail {
            None
        } else {
            Some(gen_value::<X>(ev, occ, false, 0x0E))
        }
    }
}
/// ETok -> Result<X, ETok>   (Result::or_else)
pub fn oe_r<X: Gen>(ev: u32) -> impl Fn(ETok) -> Result<X, ETok> + Copy + Send + Sync + 'static {
    move |e: ETok| {
        let d = e.dg();
        let (occ, fail) = event(ev, d);
        if fail {
            Err(e.stamp(ev))
        } else {
            drop(e);
            Ok(gen_value::<X>(ev, occ, false, d))
        }
    }
}
/// ETok -> ETok   (map_err)
pub fn me(ev: u32) -> impl Fn(ETok) -> ETok + Copy + Send + Sync + 'static {
    move |e: ETok| {
        event(ev, e.dg());
        e.stamp(ev)
    }
}
/// predicate by reference
pub fn p<X: Val>(ev: u32) -> impl Fn(&X) -> bool + Copy + Send + Sync + 'static {
    move |x: &X| {
        let d = x.dg();
        event(ev, d);
        mix(mix(salt(), ev as u64), d) % 4 != 0
    }
}
/// predicate by value (inner chains of boolean wrappers end in `-> w::pv(ev)`)
pub fn pv<X: Val>(ev: u32) -> impl Fn(X) -> bool + Copy + Send + Sync + 'static {
    move |x: X| {
        let d = x.dg();
        event(ev, d);
        mix(mix(salt(), ev as u64), d) % 4 != 0
    }
}
/// X -> Option<X> for filter_map / find_map: decided by salt, not by the failure plan
pub fn fm<X: Val>(ev: u32) -> impl Fn(X) -> Option<X> + Copy + Send + Sync + 'static {
    move |x: X| {
        let d = x.dg();
        event(ev, d);
        if mix(mix(salt(), ev as u64 ^ 0xF), d) % 3 == 0 {
            None
        } else {
            Some(x.stamp(ev))
        }
    }
}
/// fold step (Tok, X) -> Tok
pub fn f2<X: Val>(ev: u32) -> impl Fn(Tok, X) -> Tok + Copy + Send + Sync + 'static {
    move |acc: Tok, x: X| {
        let d = mix(acc.dg(), x.dg());
        event(ev, d);
        drop(x);
        acc.stamp(ev).stamp((d & 0xFFFF) as u32)
    }
}
/// try_fold step (Tok, X) -> Option<Tok>
pub fn tf2_o<X: Val>(ev: u32) -> impl Fn(Tok, X) -> Option<Tok> + Copy + Send + Sync + 'static {
    move |acc: Tok, x: X| {
        let d = mix(acc.dg(), x.dg());
        let (_, fail) = event(ev, d);
        drop(x);
        if fail {
            None
        } else {
            Some(acc.stamp(ev).stamp((d & 0xFFFF) as u32))
        }
    }
}
/// try_fold step (Tok, X) -> Result<Tok, ETok>
pub fn tf2_r<X: Val>(ev: u32) -> impl Fn(Tok, X) -> Result<Tok, ETok> + Copy + Send + Sync + 'static {
    move |acc: Tok, x: X| {
        let d = mix(acc.dg(), x.dg());
        let (_, fail) = event(ev, d);
        drop(x);
        if fail {
            Err(ETok::new(mix(d, ev as u64)))
        } else {
            Ok(acc.stamp(ev).stamp((d & 0xFFFF) as u32))
        }
    }
}
/// inspect callback
pub fn ins<X: Val>(ev: u32) -> impl Fn(&X) + Copy + Send + Sync + 'static {
    move |x: &X| {
        event(ev, x.dg());
    }
}
/// block-capture marker
pub fn cap(ev: u32) {
    event(ev, 0);
}
/// block-capture marker that snapshots a `let` name
pub fn snap<X: Val>(ev: u32, x: &X) {
    event(ev, x.dg());
}
/// snapshot through a mutable borrow: the name must have been declared `let mut`
pub fn snap_m<X: Val>(ev: u32, x: &mut X) {
    event(ev, x.dg());
    // ... and MUTATES the named value in place (stamped with the capture's event): whoever reads the name or the branch's value
    // later — the branch's next step, a later capture, the macro's result — must see this one value, not a copy taken earlier
    // (`stamp` cannot panic and creates no token, so the read / write pair is a plain in-place update)
    unsafe {
        let v = std::ptr::read(x);
        std::ptr::write(x, v.stamp(ev));
    }
}
/// fold a list of digests
pub fn dgs(ds: &[u64]) -> u64 {
    let mut h = 12u64;
    for d in ds {
        h = mix(h, *d);
    }
    h
}
/// handler body -> Tok
pub fn h(ev: u32, ds: &[u64]) -> Tok {
    let d = dgs(ds);
    event(ev, d);
    Tok::new(mix(d, ev as u64))
}
pub fn h_o(ev: u32, ds: &[u64]) -> Option<Tok> {
    let d = dgs(ds);
    let (_, fail) = event(ev, d);
    if fail {
        None
    } else {
        Some(Tok::new(mix(d, ev as u64)))
    }
}
pub fn h_r(ev: u32, ds: &[u64]) -> Result<Tok, ETok> {
    let d = dgs(ds);
    let (_, fail) = event(ev, d);
    if fail {
        Err(ETok::new(mix(d, ev as u64)))
    } else {
        Ok(Tok::new(mix(d, ev as u64)))
    }
}
/// joiner marker (custom_joiner workloads)
pub fn joiner(ev: u32, arity: usize) {
    event(ev, mix64(arity as u64));
}

// typed identity helpers that pin an inferred type
pub fn id_tok(x: Tok) -> Tok {
    x
}
pub fn ok<T>(x: T) -> Result<T, ETok> {
    Ok(x)
}
pub fn some<T>(x: T) -> Option<T> {
    Some(x)
}

// ------------------------------------------------------------------------------------------
// reference-model support: segment tags
// ------------------------------------------------------------------------------------------

pub struct InvGuard {
    pub inv: u32,
    pub inst: u32,
}

/// enter invocation site `inv` (reference mode): allocates the instance number
pub fn inv_enter(inv: u32) -> InvGuard {
    let mut g = lock();
    let c = g.inst_counter.entry(inv).or_insert(0);
    let inst = *c;
    *c += 1;
    InvGuard { inv, inst }
}

struct PopGuard;
impl Drop for PopGuard {
    fn drop(&mut self) {
        lock().tagstack.pop();
    }
}

/// run `f` tagged as (invocation, branch, step)
pub fn seg<T>(ig: &InvGuard, branch: u32, step: u32, f: impl FnOnce() -> T) -> T {
    lock().tagstack.push(TagEntry { inv: ig.inv, inst: ig.inst, branch, step });
    let _p = PopGuard;
    f()
}

/// async flavour: tag stays pushed while the future is awaited (the reference awaits
/// sequentially on one thread, so a stack is still correct)
pub async fn aseg<T>(ig: &InvGuard, branch: u32, step: u32, f: impl std::future::Future<Output = T>) -> T {
    lock().tagstack.push(TagEntry { inv: ig.inv, inst: ig.inst, branch, step });
    let _p = PopGuard;
    f.await
}

// ------------------------------------------------------------------------------------------
// async vocabulary: gate futures
// ------------------------------------------------------------------------------------------

pub use crate::exec::Gate;

/// gate future of an initial value
pub fn ainit<T: Gen + Send + 'static>(ev: u32) -> Gate<T> {
    Gate::new(ev, 0, move |occ, fail| gen_value::<T>(ev, occ, fail, 0))
}
/// sync stamping callback for FutureExt::map etc. (same as `m`)
pub fn am<X: Val>(ev: u32) -> impl Fn(X) -> X + Copy + Send + Sync + 'static {
    m(ev)
}
/// τ -> Gate<Result<τ, ETok>>   (TryFutureExt::and_then)
pub fn aat<X: Val + Send + 'static>(ev: u32) -> impl Fn(X) -> Gate<Result<X, ETok>> + Copy + Send + Sync + 'static {
    move |x: X| {
        let d = x.dg();
        Gate::new(ev, d, move |_occ, fail| {
            if fail {
                drop(x);
                Err(ETok::new(mix(d, ev as u64)))
            } else {
                Ok(x.stamp(ev))
            }
        })
    }
}
/// ETok -> Gate<Result<X, ETok>>   (TryFutureExt::or_else)
pub fn aoe<X: Gen + Send + 'static>(ev: u32) -> impl Fn(ETok) -> Gate<Result<X, ETok>> + Copy + Send + Sync + 'static {
    move |e: ETok| {
        let d = e.dg();
        Gate::new(ev, d, move |occ, fail| {
            if fail {
                Err(e.stamp(ev))
            } else {
                drop(e);
                Ok(gen_value::<X>(ev, occ, false, d))
            }
        })
    }
}
/// X -> Gate<X>: the gated `ready` (lifts a synchronous prefix into a future)
pub fn lift<X: Val + Send + 'static>(ev: u32) -> impl Fn(X) -> Gate<X> + Copy + Send + Sync + 'static {
    move |x: X| {
        let d = x.dg();
        Gate::new(ev, d, move |_occ, _fail| x.stamp(ev))
    }
}
/// X -> Gate<Result<X, ETok>>: the gated `ok` with plan-decided failure
pub fn lift_r<X: Val + Send + 'static>(ev: u32) -> impl Fn(X) -> Gate<Result<X, ETok>> + Copy + Send + Sync + 'static {
    aat(ev)
}
/// F -> future with the same output, passing through one more gate (operand of `->`)
pub fn agate<F>(ev: u32) -> impl Fn(F) -> Pin<Box<dyn Future<Output = F::Output> + Send + 'static>> + Copy + Send + Sync + 'static
where
    F: Future + Send + 'static,
    F::Output: Send + 'static,
{
    move |f: F| {
        Box::pin(async move {
            let v = f.await;
            Gate::new(ev, 0, move |_occ, _fail| ()).await;
            v
        })
    }
}
/// async handler body: gate future of a Tok
pub fn ah(ev: u32, ds: &[u64]) -> Gate<Tok> {
    let d = dgs(ds);
    Gate::new(ev, d, move |_occ, _fail| Tok::new(mix(d, ev as u64)))
}
/// async handler body for and_then: gate future of Result<Tok, ETok>
pub fn ah_r(ev: u32, ds: &[u64]) -> Gate<Result<Tok, ETok>> {
    let d = dgs(ds);
    Gate::new(ev, d, move |_occ, fail| if fail { Err(ETok::new(mix(d, ev as u64))) } else { Ok(Tok::new(mix(d, ev as u64))) })
}

use std::future::Future;
use std::pin::Pin;

/// reference mode: a step of invocation `ig` ended with `nfail` failing branches
pub fn note_fail(ig: &InvGuard, step: u32, nfail: u32) {
    lock().fail_notes.push((ig.inv, ig.inst, step, nfail));
}
/// reference mode: all renderings the (top-level) macro may return for this failed step
pub fn note_alts(alts: Vec<String>) {
    lock().alts = alts;
}
/// identity that pins an inferred type: `-> w::pin::<(Vec<w::Tok>, Vec<w::Tok>)>`
pub fn pin<T>(x: T) -> T {
    x
}

/// try-family helper for the reference model
pub trait TryV {
    fn is_fail(&self) -> bool;
    fn rd_fail(&self) -> String;
}
impl<T> TryV for Option<T> {
    fn is_fail(&self) -> bool {
        self.is_none()
    }
    fn rd_fail(&self) -> String {
        "None".into()
    }
}
impl<T, E: Rd> TryV for Result<T, E> {
    fn is_fail(&self) -> bool {
        self.is_err()
    }
    fn rd_fail(&self) -> String {
        match self {
            Err(e) => format!("Err({})", e.rd()),
            Ok(_) => "Ok(..)".into(),
        }
    }
}
pub fn rd_fail<X: TryV>(x: &X) -> String {
    x.rd_fail()
}
pub fn is_fail<X: TryV>(x: &X) -> bool {
    x.is_fail()
}

// ------------------------------------------------------------------------------------------
// custom joiner support (C16)
// ------------------------------------------------------------------------------------------

/// stamp applied by the workload's custom joiners to every value that passes through them, so that
/// an expansion that does not use the joiner's output yields different values
pub fn js<X: Val>(ev: u32, x: X) -> X {
    x.stamp(ev | 0x4000_0000)
}

/// tuples of values: stamp every element
pub trait JsTuple {
    fn jst(self, ev: u32) -> Self;
}
/// tuples of `Result`s: transpose (first error in branch order wins), stamping the Ok values
pub trait TrRes {
    type Out;
    fn tr(self, ev: u32) -> Result<Self::Out, ETok>;
}
macro_rules! impl_tuples {
    ($( ($($n:ident $i:tt),+) )+) => {$(
        impl<$($n: Val),+> JsTuple for ($($n,)+) {
            fn jst(self, ev: u32) -> Self { ($( js(ev, self.$i), )+) }
        }
        impl<$($n: Val),+> TrRes for ($(Result<$n, ETok>,)+) {
            type Out = ($($n,)+);
            fn tr(self, ev: u32) -> Result<Self::Out, ETok> {
                Ok(($( match self.$i { Ok(v) => js(ev, v), Err(e) => return Err(e) }, )+))
            }
        }
    )+};
}
impl_tuples! {
    (A 0, B 1)
    (A 0, B 1, C 2)
    (A 0, B 1, C 2, D 3)
    (A 0, B 1, C 2, D 3, E 4)
    (A 0, B 1, C 2, D 3, E 4, F 5)
}
/// tuples of zero-argument closures (what `lazy_branches(true)` hands to the joiner): call them in order
pub trait CallAll {
    type Out;
    fn call_all(self) -> Self::Out;
}
macro_rules! impl_call_all {
    ($( ($($n:ident $r:ident $i:tt),+) )+) => {$(
        impl<$($r, $n: FnOnce() -> $r),+> CallAll for ($($n,)+) {
            type Out = ($($r,)+);
            fn call_all(self) -> Self::Out { ($( (self.$i)(), )+) }
        }
    )+};
}
impl_call_all! {
    (A RA 0, B RB 1)
    (A RA 0, B RB 1, C RC 2)
    (A RA 0, B RB 1, C RC 2, D RD 3)
    (A RA 0, B RB 1, C RC 2, D RD 3, E RE 4)
    (A RA 0, B RB 1, C RC 2, D RD 3, E RE 4, F RF 5)
}
pub fn jst<T: JsTuple>(ev: u32, t: T) -> T {
    t.jst(ev)
}
pub fn tr<T: TrRes>(ev: u32, t: T) -> Result<T::Out, ETok> {
    t.tr(ev)
}

// ------------------------------------------------------------------------------------------
// streams (async kinds): every item is a gate
// ------------------------------------------------------------------------------------------

/// Stream of plan-decided length whose every item is a gate future (event `ev`, occurrence = item index
/// in creation order). End of stream is immediate.
pub struct SimStream<T> {
    ev: u32,
    remaining: Option<usize>,
    cur: Option<Gate<T>>,
}
impl<T> Unpin for SimStream<T> {}

pub fn sinit<T: Gen + Send + 'static>(ev: u32) -> SimStream<T> {
    SimStream { ev, remaining: None, cur: None }
}

impl<T: Gen + Send + 'static> futures_core::Stream for SimStream<T> {
    type Item = T;
    fn poll_next(mut self: Pin<&mut Self>, cx: &mut std::task::Context<'_>) -> std::task::Poll<Option<T>> {
        if self.remaining.is_none() {
            let seed = lock().plan.input_seed;
            let n = if seed == 0 { 2 } else { (mix(mix(seed, self.ev as u64 ^ 0x57), 1) % 4) as usize };
            self.remaining = Some(n);
        }
        if self.cur.is_none() {
            if self.remaining == Some(0) {
                return std::task::Poll::Ready(None);
            }
            let ev = self.ev;
            self.cur = Some(Gate::new(ev, 0, move |occ, fail| gen_value::<T>(ev, occ, fail, 0x5)));
        }
        match Pin::new(self.cur.as_mut().unwrap()).poll(cx) {
            std::task::Poll::Pending => std::task::Poll::Pending,
            std::task::Poll::Ready(v) => {
                self.cur = None;
                self.remaining = self.remaining.map(|r| r - 1);
                std::task::Poll::Ready(Some(v))
            }
        }
    }
}

/// &X -> Gate<bool>   (StreamExt::filter)
pub fn ap<X: Val>(ev: u32) -> impl Fn(&X) -> Gate<bool> + Copy + Send + Sync + 'static {
    move |x: &X| {
        let d = x.dg();
        Gate::new(ev, d, move |_occ, _fail| mix(mix(salt(), ev as u64), d) % 4 != 0)
    }
}
/// X -> Gate<Option<X>>   (StreamExt::filter_map)
pub fn afm<X: Val + Send + 'static>(ev: u32) -> impl Fn(X) -> Gate<Option<X>> + Copy + Send + Sync + 'static {
    move |x: X| {
        let d = x.dg();
        Gate::new(ev, d, move |_occ, _fail| if mix(mix(salt(), ev as u64 ^ 0xF), d) % 3 == 0 { None } else { Some(x.stamp(ev)) })
    }
}
/// (Tok, X) -> Gate<Tok>   (StreamExt::fold)
pub fn af2<X: Val + Send + 'static>(ev: u32) -> impl Fn(Tok, X) -> Gate<Tok> + Copy + Send + Sync + 'static {
    move |acc: Tok, x: X| {
        let d = mix(acc.dg(), x.dg());
        drop(x);
        Gate::new(ev, d, move |_occ, _fail| acc.stamp(ev).stamp((d & 0xFFFF) as u32))
    }
}
/// (Tok, X) -> Gate<Result<Tok, ETok>>   (TryStreamExt::try_fold)
pub fn atf2<X: Val + Send + 'static>(ev: u32) -> impl Fn(Tok, X) -> Gate<Result<Tok, ETok>> + Copy + Send + Sync + 'static {
    move |acc: Tok, x: X| {
        let d = mix(acc.dg(), x.dg());
        drop(x);
        Gate::new(ev, d, move |_occ, fail| if fail { Err(ETok::new(mix(d, ev as u64))) } else { Ok(acc.stamp(ev).stamp((d & 0xFFFF) as u32)) })
    }
}

// ------------------------------------------------------------------------------------------
// operator look-alikes inside operands (adversarial operand shapes)
// ------------------------------------------------------------------------------------------

/// `w::sh(callback) << 0` (also >>, |, ^, &, +, -, *, /, %) evaluates to the callback itself: a complete operand
/// whose prefix `w::sh(callback)` is complete too and is followed by a token that looks like the start of a DSL operator.
#[derive(Clone, Copy)]
pub struct Sh<F>(pub F);
/// identity with a free marker type parameter: `w::idf::<fn(u8) -> u8, _>(callback)` puts `->`, `,` and `>>` inside a turbofish
pub fn idf<M, T>(t: T) -> T {
    t
}
/// identity whose further arguments are literals made of operator characters
pub fn lit<T>(t: T, _c: char, _s: &str) -> T {
    t
}
/// identity with a range argument
pub fn idr<T>(t: T, _r: std::ops::RangeInclusive<u8>) -> T {
    t
}
/// struct-literal operand: `w::Wr { f: callback }.f`
pub struct Wr<F> {
    pub f: F,
}
pub fn sh<F>(f: F) -> Sh<F> {
    Sh(f)
}
macro_rules! sh_ops {
    ($($tr:ident $m:ident),*) => {$(
        impl<F> std::ops::$tr<u32> for Sh<F> {
            type Output = F;
            fn $m(self, _rhs: u32) -> F { self.0 }
        }
    )*};
}
sh_ops!(Shl shl, Shr shr, BitOr bitor, BitXor bitxor, BitAnd bitand, Add add, Sub sub, Mul mul, Div div, Rem rem);

// ------------------------------------------------------------------------------------------
// handlers written as (multi-segment, turbofish) function paths: `map => w::hf2::<17, _, _>`
// ------------------------------------------------------------------------------------------
macro_rules! path_handlers {
    ($( $n:literal: $hf:ident $hfo:ident $hfr:ident $ahf:ident $ahfr:ident ($($p:ident $t:ident),+) )+) => {$(
        pub fn $hf<const EV: u32, $($t: Val),+>($($p: $t),+) -> Tok { h(EV, &[$($p.dg()),+]) }
        pub fn $hfo<const EV: u32, $($t: Val),+>($($p: $t),+) -> Option<Tok> { h_o(EV, &[$($p.dg()),+]) }
        pub fn $hfr<const EV: u32, $($t: Val),+>($($p: $t),+) -> Result<Tok, ETok> { h_r(EV, &[$($p.dg()),+]) }
        pub fn $ahf<const EV: u32, $($t: Val),+>($($p: $t),+) -> Gate<Tok> { ah(EV, &[$($p.dg()),+]) }
        pub fn $ahfr<const EV: u32, $($t: Val),+>($($p: $t),+) -> Gate<Result<Tok, ETok>> { ah_r(EV, &[$($p.dg()),+]) }
    )+};
}
path_handlers! {
    1: hf1 hfo1 hfr1 ahf1 ahfr1 (a A)
    2: hf2 hfo2 hfr2 ahf2 ahfr2 (a A, b B)
    3: hf3 hfo3 hfr3 ahf3 ahfr3 (a A, b B, c C)
    4: hf4 hfo4 hfr4 ahf4 ahfr4 (a A, b B, c C, d D)
    5: hf5 hfo5 hfr5 ahf5 ahfr5 (a A, b B, c C, d D, e E)
}
