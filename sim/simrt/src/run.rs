//! Executing one program once: in reference mode, or simulated under a plan and a schedule.

use crate::chooser::{Chooser, Strat};
use crate::core::{lock, CallerName, Mode, Ph, Plan, Rec, Tag};
use crate::exec::{self, AsyncEnd};
use crate::prog::{Kind, Prog, RunFn};
use crate::thread::{self, Abort, ThInfo};
use std::panic::{catch_unwind, AssertUnwindSafe};

#[derive(Clone, Debug, PartialEq, Eq)]
pub enum Outcome {
    Value(String),
    Panic(String),
    Deadlock,
    Hang,
    StepCap,
    Cancelled,
}

impl Outcome {
    pub fn short(&self) -> String {
        match self {
            Outcome::Value(s) => format!("value {}", s),
            Outcome::Panic(m) => format!("panic {:?}", m),
            Outcome::Deadlock => "deadlock".into(),
            Outcome::Hang => "hang".into(),
            Outcome::StepCap => "step-cap".into(),
            Outcome::Cancelled => "cancelled".into(),
        }
    }
}

#[derive(Clone, Debug)]
pub struct RefEv {
    pub ev: u32,
    pub occ: u32,
    pub dg: u64,
    pub tag: Tag,
    /// position of the Pass record in the reference log
    pub seq: u32,
    /// the event is a gate future (has a Create record): in async kinds only gates can wait
    pub gate: bool,
    /// the gate future was created inside a block capture (its creation belongs to the capture,
    /// its first poll and its value to the branch)
    pub created_in_capture: bool,
}

#[derive(Clone, Debug)]
pub struct RefRun {
    pub outcome: Outcome,
    /// events that passed, in reference order
    pub events: Vec<RefEv>,
    /// (ev, occ) of the event that panicked, if the planned panic was reached, with its tag
    pub panic_at: Option<RefEv>,
    pub tokens_created: u64,
    pub tokens_live: u64,
    /// (inv, inst, step, failing branches) per failed step
    pub fail_notes: Vec<(u32, u32, u32, u32)>,
    /// renderings the top-level async try macro may return (empty: only `outcome`)
    pub alts: Vec<String>,
    pub log_len: usize,
}

pub fn run_reference(prog: &Prog, plan: &Plan) -> RefRun {
    lock().reset(Mode::Reference, plan.clone());
    let r = match prog.reference {
        RunFn::Sync(f) => catch_unwind(AssertUnwindSafe(f)),
        RunFn::Async(mk) => catch_unwind(AssertUnwindSafe(|| exec::block_on_ready(mk()))),
    };
    let mut g = lock();
    g.mode = Mode::Idle;
    let outcome = match r {
        Ok(s) => Outcome::Value(s),
        Err(p) => Outcome::Panic(exec::panic_msg(&p)),
    };
    let mut events = Vec::new();
    let mut panic_at = None;
    // an event "passed" in the reference when it has a Pass record; the planned panic fires
    // right after the Pass record of its position
    for r in g.log.iter() {
        if r.ph == Ph::Pass {
            let tag = if r.tag != u32::MAX { g.tags[r.tag as usize].clone() } else { Vec::new() };
            let gate = g.happened.contains(&(r.ev, r.occ, Ph::Create as u8));
            let created_in_capture = g
                .log
                .iter()
                .find(|c| c.ph == Ph::Create && c.ev == r.ev && c.occ == r.occ)
                .map(|c| c.tag != u32::MAX && g.tags[c.tag as usize] != tag)
                .unwrap_or(false);
            let e = RefEv { ev: r.ev, occ: r.occ, dg: r.dg, tag, seq: r.seq, gate, created_in_capture };
            if plan.panic == Some((r.ev, r.occ)) {
                panic_at = Some(e.clone());
            }
            events.push(e);
        }
    }
    RefRun {
        outcome,
        events,
        panic_at,
        tokens_created: g.ledger.created,
        tokens_live: g.ledger.live.len() as u64,
        fail_notes: g.fail_notes.clone(),
        alts: g.alts.clone(),
        log_len: g.log.len(),
    }
}

#[derive(Clone, Debug)]
pub struct Obs {
    pub outcome: Outcome,
    pub log: Vec<Rec>,
    pub decisions: Vec<u32>,
    pub alternatives: u64,
    pub steps: u64,
    pub threads: Vec<ThInfo>,
    pub tokens_created: u64,
    pub tokens_dropped: u64,
    pub tokens_live: u64,
    pub double_drop: u64,
    pub unregistered: u32,
    pub max_live: u32,
    pub spolls: u64,
    pub swakes: u64,
    pub batches: u64,
    pub tasks: u32,
    pub max_pending_gates: u32,
    pub cancel_with_live_tasks: bool,
    pub stale_wakes: u64,
    pub ready_now: u64,
    pub yields: u64,
    pub migrated: bool,
    /// threads still unfinished when the caller's closure returned (thread mode)
    pub unfinished_at_return: u32,
    pub log_hash: u64,
}

pub fn caller_name(c: &CallerName) -> Option<String> {
    match c {
        CallerName::Main => Some("main".into()),
        CallerName::Named(s) => Some(s.clone()),
        CallerName::Unnamed => None,
    }
}

pub fn run_sim(prog: &Prog, kind: Kind, plan: &Plan, strat: Strat, seed: u64, replay: Option<Vec<u32>>) -> Obs {
    let f = prog.runs.iter().find(|(k, _)| *k == kind).expect("kind not instantiated for this program").1;
    let chooser = Chooser::new(strat, seed, replay);
    match f {
        RunFn::Sync(f) => {
            lock().reset(Mode::Threads, plan.clone());
            let tr = thread::run_as_caller(caller_name(&plan.caller), chooser, f);
            let mut g = lock();
            g.mode = Mode::Idle;
            let outcome = match (&tr.abort, tr.result) {
                (Some(Abort::Deadlock), _) => Outcome::Deadlock,
                (Some(Abort::StepCap), _) => Outcome::StepCap,
                (None, Ok(s)) => Outcome::Value(s),
                (None, Err(p)) => Outcome::Panic(exec::panic_msg(&p)),
            };
            let log = std::mem::take(&mut g.log);
            let log_hash = crate::core::log_hash(&log);
            Obs {
                outcome,
                log,
                decisions: tr.decisions,
                alternatives: tr.alternatives,
                steps: tr.steps,
                threads: tr.threads,
                tokens_created: g.ledger.created,
                tokens_dropped: g.ledger.dropped,
                tokens_live: g.ledger.live.len() as u64,
                double_drop: g.ledger.double_drop,
                unregistered: g.unregistered_events,
                max_live: tr.max_live,
                spolls: 0,
                swakes: 0,
                batches: 0,
                tasks: 0,
                max_pending_gates: 0,
                cancel_with_live_tasks: false,
                stale_wakes: 0,
                ready_now: 0,
                yields: 0,
                migrated: false,
                unfinished_at_return: tr.unfinished_at_return,
                log_hash,
            }
        }
        RunFn::Async(mk) => {
            lock().reset(Mode::Async, plan.clone());
            let ar = exec::run_root(mk, chooser);
            let mut g = lock();
            g.mode = Mode::Idle;
            let outcome = match ar.end {
                AsyncEnd::Done => Outcome::Value(ar.value.unwrap_or_default()),
                AsyncEnd::Panic(m) => Outcome::Panic(m),
                AsyncEnd::Hang => Outcome::Hang,
                AsyncEnd::StepCap => Outcome::StepCap,
                AsyncEnd::Cancelled => Outcome::Cancelled,
            };
            let log = std::mem::take(&mut g.log);
            let log_hash = crate::core::log_hash(&log);
            Obs {
                outcome,
                log,
                decisions: ar.decisions,
                alternatives: ar.alternatives,
                steps: ar.steps,
                threads: Vec::new(),
                tokens_created: g.ledger.created,
                tokens_dropped: g.ledger.dropped,
                tokens_live: g.ledger.live.len() as u64,
                double_drop: g.ledger.double_drop,
                unregistered: g.unregistered_events,
                max_live: 0,
                spolls: ar.spolls,
                swakes: ar.swakes,
                batches: ar.batches,
                tasks: ar.tasks,
                max_pending_gates: ar.max_pending_gates,
                cancel_with_live_tasks: ar.cancel_with_live_tasks,
                stale_wakes: ar.stale_wakes,
                ready_now: ar.ready_now,
                yields: ar.yields,
                migrated: ar.migrated,
                unfinished_at_return: 0,
                log_hash,
            }
        }
    }
}
