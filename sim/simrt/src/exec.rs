//! Async seam: a strict single-threaded executor whose every poll, gate release, spurious
//! poll / wake and cancellation is a decision of the seeded chooser; gate futures (the only
//! leaf futures of the workload); the task API behind the `tokio` shim.

use crate::chooser::{Chooser, Opt};
use crate::core::{lock, Mode, Ph};
use std::any::Any;
use std::future::Future;
use std::panic::{catch_unwind, AssertUnwindSafe};
use std::pin::Pin;
use std::sync::{Arc, Mutex};
use std::task::{Context, Poll, Wake, Waker};

#[derive(Clone, Copy, Debug, PartialEq, Eq)]
pub enum GateState {
    Pending,
    Released,
    Done,
    Dropped,
}

pub struct GateInfo {
    pub ev: u32,
    pub occ: u32,
    pub state: GateState,
    pub waker: Option<Waker>,
    pub task: u32,
}

type BoxFut = Pin<Box<dyn Future<Output = ()> + Send + 'static>>;

pub struct Spawned {
    pub fut: BoxFut,
    pub on_panic: Box<dyn FnOnce(Box<dyn Any + Send>) + Send>,
}

#[derive(Default)]
pub struct ExecShared {
    pub gates: Vec<GateInfo>,
    pub notified: Vec<bool>,
    pub alive: Vec<bool>,
    /// F-waker: current waker generation per task; a wake-up through a waker of an older generation is ignored (the Future
    /// contract only requires the waker of the MOST RECENT poll to be honoured)
    pub gen: Vec<u32>,
    pub stale_wakes: u64,
    /// F-ready: gates that completed in their very first poll
    pub ready_now: u64,
    /// F-yield: gates that woke themselves inside their first poll
    pub yields: u64,
    /// F-migrate: generation of the runtime the macro's future currently lives in
    pub rt_gen: u32,
    pub spawn_queue: Vec<Spawned>,
    pub current: u32,
    pub active: bool,
}

pub static EXEC: Mutex<ExecShared> = Mutex::new(ExecShared {
    gates: Vec::new(),
    notified: Vec::new(),
    alive: Vec::new(),
    gen: Vec::new(),
    stale_wakes: 0,
    ready_now: 0,
    yields: 0,
    rt_gen: 0,
    spawn_queue: Vec::new(),
    current: 0,
    active: false,
});

fn ex() -> std::sync::MutexGuard<'static, ExecShared> {
    EXEC.lock().unwrap_or_else(|e| e.into_inner())
}

pub fn current_task() -> u32 {
    ex().current
}

struct TaskWaker {
    id: u32,
    gen: u32,
}
impl Wake for TaskWaker {
    fn wake(self: Arc<Self>) {
        self.wake_by_ref()
    }
    fn wake_by_ref(self: &Arc<Self>) {
        let mut e = ex();
        if (self.id as usize) < e.notified.len() {
            if e.gen[self.id as usize] == self.gen {
                e.notified[self.id as usize] = true;
            } else {
                e.stale_wakes += 1;
            }
        }
    }
}

// ------------------------------------------------------------------------------------------
// Gate future
// ------------------------------------------------------------------------------------------

/// Leaf future of the workload. `make(occ, fail)` produces the value when the gate passes.
pub struct Gate<T> {
    ev: u32,
    occ: u32,
    dg: u64,
    gid: Option<u32>,
    make: Option<Box<dyn FnOnce(u32, bool) -> T + Send + 'static>>,
    finished: bool,
    /// F-yield: further self-wakes before the gate completes (0..2; the first one happens at the first poll)
    yields_left: u8,
}

impl<T> Unpin for Gate<T> {}

impl<T> Gate<T> {
    pub fn new(ev: u32, dg: u64, make: impl FnOnce(u32, bool) -> T + Send + 'static) -> Gate<T> {
        let mut g = lock();
        let occ = g.next_occ(ev);
        let ent = if g.mode == Mode::Async { ex().current } else { 0 };
        g.push(ent, Ph::Create, ev, occ, dg);
        Gate { ev, occ, dg, gid: None, make: Some(Box::new(make)), finished: false, yields_left: 0 }
    }

    fn pass(&mut self, ent: u32) -> T {
        let (fail, panic) = {
            let mut g = lock();
            g.push(ent, Ph::Pass, self.ev, self.occ, self.dg);
            (g.plan.fail.contains(&(self.ev, self.occ)), g.plan.panic == Some((self.ev, self.occ)))
        };
        self.finished = true;
        if panic {
            panic!("{}", crate::w::PANIC_MSG);
        }
        let make = self.make.take().expect("gate polled after completion");
        make(self.occ, fail)
    }
}

impl<T> Future for Gate<T> {
    type Output = T;
    fn poll(mut self: Pin<&mut Self>, cx: &mut Context<'_>) -> Poll<T> {
        if self.finished {
            panic!("simrt: gate polled after completion");
        }
        let mode = lock().mode;
        if mode != Mode::Async {
            // reference / free mode: ready at once
            if self.gid.is_none() {
                self.gid = Some(u32::MAX);
                lock().push(0, Ph::Arrive, self.ev, self.occ, self.dg);
            }
            return Poll::Ready(self.pass(0));
        }
        match self.gid {
            None => {
                // F-ready: the plan makes some futures complete in their very first poll (like `future::ready` or an
                // `async` block without an await point), unless they have to wait for a dependency
                let ready_now = {
                    let g = lock();
                    g.plan.ready_pm > 0
                        && crate::rng::hash_all(&[g.plan.ready_seed, self.ev as u64, self.occ as u64]) % 1000 < g.plan.ready_pm as u64
                        && g.dep_ok(self.ev, self.occ)
                };
                if ready_now {
                    let task = {
                        let mut e = ex();
                        e.ready_now += 1;
                        e.current
                    };
                    self.gid = Some(u32::MAX);
                    lock().push(task, Ph::Arrive, self.ev, self.occ, self.dg);
                    return Poll::Ready(self.pass(task));
                }
                // F-yield: the future wakes itself from inside this poll, returns Pending and is complete at its next poll
                // (`yield_now` style). Nobody else will ever wake it: a wake-up that arrives WHILE the task is being polled must
                // lead to another poll.
                let yield_now = {
                    let g = lock();
                    g.plan.yield_pm > 0
                        && crate::rng::hash_all(&[g.plan.ready_seed ^ 0x5bd1_e995_9e37_79b9, self.ev as u64, self.occ as u64]) % 1000 < g.plan.yield_pm as u64
                        && g.dep_ok(self.ev, self.occ)
                        && !g.plan.stuck.contains(&(self.ev, self.occ))
                };
                let (gid, task) = {
                    let mut e = ex();
                    let task = e.current;
                    let (state, waker) = if yield_now { (GateState::Released, None) } else { (GateState::Pending, Some(cx.waker().clone())) };
                    e.gates.push(GateInfo { ev: self.ev, occ: self.occ, state, waker, task });
                    if yield_now {
                        e.yields += 1;
                    }
                    ((e.gates.len() - 1) as u32, task)
                };
                self.gid = Some(gid);
                {
                    let mut g = lock();
                    g.push(task, Ph::Arrive, self.ev, self.occ, self.dg);
                    if yield_now {
                        g.push(task, Ph::Release, self.ev, self.occ, gid as u64);
                    }
                }
                if yield_now {
                    // one gate in three yields more than once (a future that needs several polls)
                    let h = crate::rng::hash_all(&[self.ev as u64, self.occ as u64, 0x77]) % 6;
                    self.yields_left = if h == 0 { 2 } else if h == 1 { 1 } else { 0 };
                    cx.waker().wake_by_ref();
                }
                Poll::Pending
            }
            Some(gid) => {
                if self.yields_left > 0 {
                    self.yields_left -= 1;
                    ex().yields += 1;
                    cx.waker().wake_by_ref();
                    return Poll::Pending;
                }
                let (released, task) = {
                    let mut e = ex();
                    let task = e.current;
                    let gi = &mut e.gates[gid as usize];
                    if gi.state == GateState::Released {
                        gi.state = GateState::Done;
                        gi.waker = None;
                        (true, task)
                    } else {
                        gi.waker = Some(cx.waker().clone());
                        gi.task = task;
                        (false, task)
                    }
                };
                if released {
                    Poll::Ready(self.pass(task))
                } else {
                    Poll::Pending
                }
            }
        }
    }
}

impl<T> Drop for Gate<T> {
    fn drop(&mut self) {
        if let Some(gid) = self.gid {
            if gid != u32::MAX && !self.finished {
                let w = {
                    let mut e = ex();
                    if let Some(gi) = e.gates.get_mut(gid as usize) {
                        gi.state = GateState::Dropped;
                        gi.waker.take()
                    } else {
                        None
                    }
                };
                drop(w);
                lock().push(0, Ph::GateDrop, self.ev, self.occ, gid as u64);
            }
        }
    }
}

// ------------------------------------------------------------------------------------------
// task API (used by the tokio shim)
// ------------------------------------------------------------------------------------------

pub struct JoinError {
    panic: bool,
    payload: Mutex<Option<Box<dyn Any + Send>>>,
}
impl JoinError {
    pub fn is_panic(&self) -> bool {
        self.panic
    }
    pub fn is_cancelled(&self) -> bool {
        !self.panic
    }
    /// as tokio: the payload the task panicked with
    pub fn into_panic(self) -> Box<dyn Any + Send> {
        self.try_into_panic().expect("`JoinError` reason is not a panic.")
    }
    pub fn try_into_panic(self) -> Result<Box<dyn Any + Send>, JoinError> {
        let p = self.payload.lock().unwrap_or_else(|e| e.into_inner()).take();
        match p {
            Some(p) if self.panic => Ok(p),
            _ => Err(self),
        }
    }
}
impl std::fmt::Debug for JoinError {
    fn fmt(&self, f: &mut std::fmt::Formatter<'_>) -> std::fmt::Result {
        if self.panic {
            write!(f, "JoinError::Panic(...)")
        } else {
            write!(f, "JoinError::Cancelled")
        }
    }
}
impl std::fmt::Display for JoinError {
    fn fmt(&self, f: &mut std::fmt::Formatter<'_>) -> std::fmt::Result {
        if self.panic {
            write!(f, "task panicked")
        } else {
            write!(f, "task was cancelled")
        }
    }
}
impl std::error::Error for JoinError {}

struct Slot<T> {
    result: Option<Result<T, JoinError>>,
    waker: Option<Waker>,
    finished: bool,
}

pub struct JoinHandle<T> {
    slot: Arc<Mutex<Slot<T>>>,
}
impl<T> Unpin for JoinHandle<T> {}
impl<T> JoinHandle<T> {
    /// as tokio: true once the task has completed (its output may not have been taken yet)
    pub fn is_finished(&self) -> bool {
        self.slot.lock().unwrap_or_else(|e| e.into_inner()).finished
    }
}

impl<T> Future for JoinHandle<T> {
    type Output = Result<T, JoinError>;
    fn poll(self: Pin<&mut Self>, cx: &mut Context<'_>) -> Poll<Self::Output> {
        let mut s = self.slot.lock().unwrap_or_else(|e| e.into_inner());
        if let Some(r) = s.result.take() {
            Poll::Ready(r)
        } else {
            s.waker = Some(cx.waker().clone());
            Poll::Pending
        }
    }
}

fn slot_set<T>(slot: &Arc<Mutex<Slot<T>>>, r: Result<T, JoinError>) {
    let w = {
        let mut s = slot.lock().unwrap_or_else(|e| e.into_inner());
        s.result = Some(r);
        s.finished = true;
        s.waker.take()
    };
    if let Some(w) = w {
        w.wake();
    }
}

/// as `tokio::runtime::Handle`: names the runtime that was current when it was taken. The simulator has one executor; a
/// "runtime" is a generation number that F-migrate advances (the old runtime is shut down at that moment).
#[derive(Clone, Debug)]
pub struct Handle {
    gen: u32,
}
impl Handle {
    pub fn current() -> Handle {
        let e = ex();
        if !e.active {
            drop(e);
            panic!("there is no reactor running, must be called from the context of a Tokio 1.x runtime");
        }
        Handle { gen: e.rt_gen }
    }
    /// as tokio: spawning on a runtime that has shut down yields a JoinHandle that resolves to a cancelled JoinError
    pub fn spawn<F>(&self, fut: F) -> JoinHandle<F::Output>
    where
        F: Future + Send + 'static,
        F::Output: Send + 'static,
    {
        let cur = ex().rt_gen;
        if cur == self.gen {
            spawn(fut)
        } else {
            drop(fut);
            JoinHandle { slot: Arc::new(Mutex::new(Slot { result: Some(Err(JoinError { panic: false, payload: Mutex::new(None) })), waker: None, finished: true })) }
        }
    }
}

pub fn spawn<F>(fut: F) -> JoinHandle<F::Output>
where
    F: Future + Send + 'static,
    F::Output: Send + 'static,
{
    let slot = Arc::new(Mutex::new(Slot { result: None, waker: None, finished: false }));
    let s1 = slot.clone();
    let s2 = slot.clone();
    let mut e = ex();
    if !e.active {
        drop(e);
        panic!("there is no reactor running, must be called from the context of a Tokio 1.x runtime");
    }
    e.spawn_queue.push(Spawned {
        fut: Box::pin(async move {
            let v = fut.await;
            slot_set(&s1, Ok(v));
        }),
        on_panic: Box::new(move |p| slot_set(&s2, Err(JoinError { panic: true, payload: Mutex::new(Some(p)) }))),
    });
    JoinHandle { slot }
}

// ------------------------------------------------------------------------------------------
// executor
// ------------------------------------------------------------------------------------------

#[derive(Clone, Debug, PartialEq, Eq)]
pub enum AsyncEnd {
    Done,
    Panic(String),
    Hang,
    StepCap,
    Cancelled,
}

pub struct AsyncRun<R> {
    pub end: AsyncEnd,
    pub value: Option<R>,
    pub decisions: Vec<u32>,
    pub alternatives: u64,
    pub steps: u64,
    pub spolls: u64,
    pub swakes: u64,
    pub batches: u64,
    pub tasks: u32,
    pub max_pending_gates: u32,
    pub cancel_with_live_tasks: bool,
    pub stale_wakes: u64,
    pub ready_now: u64,
    pub yields: u64,
    pub migrated: bool,
}

pub const ASYNC_STEP_CAP: u64 = 20_000;

pub fn panic_msg(p: &Box<dyn Any + Send>) -> String {
    if let Some(s) = p.downcast_ref::<&str>() {
        s.to_string()
    } else if let Some(s) = p.downcast_ref::<String>() {
        s.clone()
    } else {
        "<non-string panic payload>".into()
    }
}

struct TaskRec {
    fut: Option<Pin<Box<dyn Future<Output = ()> + 'static>>>,
    on_panic: Option<Box<dyn FnOnce(Box<dyn Any + Send>) + Send>>,
    waker: Waker,
}

/// Run `root` to completion under the chooser. Mode/plan must have been set by the caller
/// (Mode::Async). The root future's creation must already have happened (and been logged).
pub fn run_root<R: 'static>(mk: impl FnOnce() -> Pin<Box<dyn Future<Output = R> + 'static>>, mut chooser: Chooser) -> AsyncRun<R> {
    let (spoll_pm, swake_pm, cancel_at, migrate_at) = {
        let g = lock();
        (g.plan.spoll_pm, g.plan.swake_pm, g.plan.cancel_at, g.plan.migrate_at)
    };
    let mut migrated = false;
    let fault_pm = spoll_pm + swake_pm;
    {
        let mut e = ex();
        e.gates.clear();
        e.notified.clear();
        e.alive.clear();
        e.gen.clear();
        e.stale_wakes = 0;
        e.ready_now = 0;
        e.yields = 0;
        e.rt_gen = 0;
        e.spawn_queue.clear();
        e.current = 0;
        e.active = true;
    }
    // creating the macro's future must evaluate nothing (I-lazy): everything logged before
    // the RootCreated record was evaluated eagerly
    let root = match catch_unwind(AssertUnwindSafe(mk)) {
        Ok(r) => r,
        Err(p) => {
            ex().active = false;
            lock().push(0, Ph::RootCreated, 0, 0, 1);
            return AsyncRun {
                end: AsyncEnd::Panic(panic_msg(&p)),
                value: None,
                decisions: Vec::new(),
                alternatives: 0,
                steps: 0,
                spolls: 0,
                swakes: 0,
                batches: 0,
                tasks: 0,
                max_pending_gates: 0,
                cancel_with_live_tasks: false,
                stale_wakes: 0,
                ready_now: 0,
                yields: 0,
                migrated: false,
            };
        }
    };
    lock().push(0, Ph::RootCreated, 0, 0, 0);
    // R needs not be Send: keep it on this thread through a raw local cell
    let out_cell: std::rc::Rc<std::cell::RefCell<Option<R>>> = std::rc::Rc::new(std::cell::RefCell::new(None));
    let oc = out_cell.clone();
    let mut first_poll = true;
    let root_wrapped: Pin<Box<dyn Future<Output = ()>>> = Box::pin(async move {
        let v = root.await;
        *oc.borrow_mut() = Some(v);
    });
    let mut tasks: Vec<TaskRec> = Vec::new();
    let mk_waker = |id: u32| Waker::from(Arc::new(TaskWaker { id, gen: 0 }));
    let fresh_wakers = lock().plan.fresh_wakers;
    tasks.push(TaskRec { fut: Some(root_wrapped), on_panic: None, waker: mk_waker(0) });
    {
        let mut e = ex();
        e.notified.push(true);
        e.alive.push(true);
        e.gen.push(0);
    }

    let mut end: Option<AsyncEnd> = None;
    let mut steps = 0u64;
    let mut spolls = 0u64;
    let mut swakes = 0u64;
    let mut batches = 0u64;
    let mut releases_since_poll = 0u32;
    let mut max_pending = 0u32;
    let mut root_done = false;
    let mut draining = false;
    let mut cancel_with_live_tasks = false;
    let mut last: Option<u32> = None;

    loop {
        // options: state-determined, independent of the PRNG
        let mut opts: Vec<Opt> = Vec::new();
        #[derive(Clone, Copy)]
        enum Act {
            Poll(u32, bool),
            Release(u32),
            SWake(u32),
        }
        let mut acts: Vec<Act> = Vec::new();
        {
            let e = ex();
            let g = lock();
            for t in 0..tasks.len() {
                if e.alive[t] && e.notified[t] {
                    opts.push(Opt { ent: t as u32, class: 0, key: 0 });
                    acts.push(Act::Poll(t as u32, false));
                }
            }
            let mut pending = 0u32;
            for (gi, gt) in e.gates.iter().enumerate() {
                if gt.state == GateState::Pending {
                    pending += 1;
                    if draining || (g.dep_ok(gt.ev, gt.occ) && !g.plan.stuck.contains(&(gt.ev, gt.occ))) {
                        opts.push(Opt { ent: gt.task, class: 1, key: ((gt.ev as u64) << 32) | gt.occ as u64 });
                        acts.push(Act::Release(gi as u32));
                    }
                }
            }
            if pending > max_pending {
                max_pending = pending;
            }
            if !draining && fault_pm > 0 {
                for t in 0..tasks.len() {
                    if e.alive[t] && !e.notified[t] {
                        opts.push(Opt { ent: t as u32, class: 2, key: 0 });
                        acts.push(Act::Poll(t as u32, true));
                    }
                }
                for (gi, gt) in e.gates.iter().enumerate() {
                    if gt.state == GateState::Pending {
                        opts.push(Opt { ent: gt.task, class: 2, key: 0 });
                        acts.push(Act::SWake(gi as u32));
                    }
                }
            }
        }
        let real = opts.iter().filter(|o| o.class != 2).count();
        if real == 0 {
            if !root_done && !draining {
                end = Some(AsyncEnd::Hang);
                lock().push(0, Ph::Stuck, 0, 0, 0);
            }
            break;
        }
        steps += 1;
        if steps > ASYNC_STEP_CAP {
            if !root_done && !draining {
                end = Some(AsyncEnd::StepCap);
            }
            break;
        }
        if !draining && !root_done && !migrated && migrate_at.map(|m| steps as u32 >= m).unwrap_or(false) && !first_poll {
            // F-migrate: between two polls, with no spawned task alive, the macro's future moves to another runtime
            let quiet = ex().alive.iter().skip(1).all(|a| !*a);
            if quiet {
                migrated = true;
                let g = {
                    let mut e = ex();
                    e.rt_gen += 1;
                    e.rt_gen
                };
                lock().push(0, Ph::Migrate, 0, g, 0);
            }
        }
        if !draining && cancel_at == Some(steps as u32) && !root_done {
            // F-cancel: drop the root future here
            let live = ex().alive.iter().skip(1).any(|a| *a);
            cancel_with_live_tasks = live;
            lock().push(0, Ph::Cancel, 0, 0, 0);
            tasks[0].fut = None;
            {
                let mut e = ex();
                e.alive[0] = false;
                e.notified[0] = false;
            }
            end = Some(AsyncEnd::Cancelled);
            root_done = true;
            draining = true;
            continue;
        }
        let idx = chooser.choose_faulty(&opts, last, if draining { 0 } else { fault_pm });
        match acts[idx] {
            Act::Poll(t, spurious) => {
                if releases_since_poll >= 2 {
                    batches += 1;
                }
                releases_since_poll = 0;
                if spurious {
                    spolls += 1;
                }
                last = Some(t);
                {
                    let mut e = ex();
                    e.notified[t as usize] = false;
                    e.current = t;
                }
                {
                    let mut g = lock();
                    if t == 0 && first_poll {
                        g.push(0, Ph::RootFirstPoll, 0, 0, 0);
                        first_poll = false;
                    }
                    g.push(t, Ph::Poll, 0, t, spurious as u64);
                }
                let mut fut = tasks[t as usize].fut.take().expect("polling a finished task");
                if fresh_wakers {
                    // F-waker: every poll gets a new waker; older ones are dead from now on
                    let g = {
                        let mut e = ex();
                        e.gen[t as usize] += 1;
                        e.gen[t as usize]
                    };
                    tasks[t as usize].waker = Waker::from(Arc::new(TaskWaker { id: t, gen: g }));
                }
                let waker = tasks[t as usize].waker.clone();
                let r = catch_unwind(AssertUnwindSafe(|| {
                    let mut cx = Context::from_waker(&waker);
                    fut.as_mut().poll(&mut cx)
                }));
                ex().current = 0;
                match r {
                    Ok(Poll::Pending) => {
                        tasks[t as usize].fut = Some(fut);
                    }
                    Ok(Poll::Ready(())) => {
                        drop(fut);
                        ex().alive[t as usize] = false;
                        lock().push(t, Ph::Exit, 0, t, 0);
                        if t == 0 {
                            root_done = true;
                            end = Some(AsyncEnd::Done);
                            lock().push(0, Ph::RootDone, 0, 0, 0);
                            draining = true;
                        }
                    }
                    Err(p) => {
                        // dropping a future that panicked may panic again; contain it
                        let _ = catch_unwind(AssertUnwindSafe(move || drop(fut)));
                        ex().alive[t as usize] = false;
                        lock().push(t, Ph::Exit, 0, t, 1);
                        let msg = panic_msg(&p);
                        if let Some(op) = tasks[t as usize].on_panic.take() {
                            op(p);
                        }
                        if t == 0 {
                            root_done = true;
                            end = Some(AsyncEnd::Panic(msg));
                            lock().push(0, Ph::RootDone, 0, 0, 1);
                            draining = true;
                        }
                    }
                }
                // adopt tasks spawned during this poll
                let spawned: Vec<Spawned> = std::mem::take(&mut ex().spawn_queue);
                for sp in spawned {
                    let id = tasks.len() as u32;
                    tasks.push(TaskRec { fut: Some(sp.fut), on_panic: Some(sp.on_panic), waker: mk_waker(id) });
                    {
                        let mut e = ex();
                        e.notified.push(true);
                        e.alive.push(true);
                        e.gen.push(0);
                    }
                    lock().push(t, Ph::TSpawn, 0, id, 0);
                }
            }
            Act::Release(gid) => {
                releases_since_poll += 1;
                let (w, ev, occ) = {
                    let mut e = ex();
                    let gi = &mut e.gates[gid as usize];
                    gi.state = GateState::Released;
                    (gi.waker.clone(), gi.ev, gi.occ)
                };
                lock().push(0, Ph::Release, ev, occ, gid as u64);
                if let Some(w) = w {
                    w.wake();
                }
            }
            Act::SWake(gid) => {
                swakes += 1;
                let (w, ev, occ) = {
                    let e = ex();
                    let gi = &e.gates[gid as usize];
                    (gi.waker.clone(), gi.ev, gi.occ)
                };
                lock().push(0, Ph::SWake, ev, occ, gid as u64);
                if let Some(w) = w {
                    w.wake_by_ref();
                }
            }
        }
    }
    // drop whatever is left (detached tasks that can make no progress, aborted runs)
    for t in tasks.iter_mut() {
        if let Some(f) = t.fut.take() {
            let _ = catch_unwind(AssertUnwindSafe(move || drop(f)));
        }
        t.on_panic = None;
    }
    let ntasks = tasks.len() as u32;
    drop(tasks);
    {
        let mut e = ex();
        e.active = false;
        e.spawn_queue.clear();
        for g in e.gates.iter_mut() {
            g.waker = None;
        }
    }
    let value = out_cell.borrow_mut().take();
    let stale_wakes = ex().stale_wakes;
    let ready_now = ex().ready_now;
    let yields = ex().yields;
    AsyncRun {
        stale_wakes,
        ready_now,
        yields,
        migrated,
        end: end.unwrap_or(AsyncEnd::Hang),
        value,
        decisions: std::mem::take(&mut chooser.recorded),
        alternatives: chooser.alternatives,
        steps,
        spolls,
        swakes,
        batches,
        tasks: ntasks,
        max_pending_gates: max_pending,
        cancel_with_live_tasks,
    }
}

/// Trivial executor for the reference model (gates are ready at once in Mode::Reference).
pub fn block_on_ready<R>(fut: impl Future<Output = R>) -> R {
    struct Noop;
    impl Wake for Noop {
        fn wake(self: Arc<Self>) {}
    }
    let waker = Waker::from(Arc::new(Noop));
    let mut cx = Context::from_waker(&waker);
    let mut fut = Box::pin(fut);
    for _ in 0..100_000 {
        if let Poll::Ready(v) = fut.as_mut().poll(&mut cx) {
            return v;
        }
    }
    panic!("simrt: reference future did not complete");
}
