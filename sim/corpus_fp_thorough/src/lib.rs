// generated programs live in src/bin (one bin per chunk)
