//! C20, Miri leg: several threads expand the same / different inputs concurrently under Miri's
//! seeded scheduler with preemption INSIDE expansions; outputs must equal the sequential ones.
//! Miri additionally reports data races and undefined behaviour (the crate's `unsafe`
//! fn-pointer union in group_determiner.rs is exercised by every parse).
use join_impl::{generate_join, Config, JoinInputDefault};
use std::str::FromStr;
use std::sync::Arc;

const INPUTS: [(&str, bool, bool, bool); 3] = [
    ("let a = Some(1) |> |v| v + 1 ~=> >>> ?> |v| *v > 1 <<< , Some(2) => |v| Some(v) ~|> { let a = a.clone(); move |v| v + a.unwrap_or(0) }, map => |a, b| a + b", false, true, false),
    ("custom_joiner(j!) lazy_branches(true) vec![1, 2].into_iter() |> |x: i32| -> i32 { x } =>[] Vec<_> ~..len(), Ok::<_, ()>(3) ?? |_| () , then => |a, b| (a, b)", false, false, true),
    ("futures_crate_path(::futures) ok(1) => |v| ok(v) ~<= |_| ok(2), ready(Ok(2)) !> |e: u8| e, and_then => |a, b| ok(a + b)", true, true, true),
];

fn expand(i: usize) -> String {
    let (text, is_async, is_try, is_spawn) = INPUTS[i];
    let ts = proc_macro2::TokenStream::from_str(text).expect("lex");
    let parsed = syn::parse2::<JoinInputDefault>(ts).expect("parse");
    generate_join(&parsed, Config { is_async, is_try, is_spawn }).to_string()
}

fn main() {
    let nthreads: usize = std::env::args().nth(1).and_then(|s| s.parse().ok()).unwrap_or(3);
    // sequential reference
    let seq: Arc<Vec<String>> = Arc::new((0..INPUTS.len()).map(expand).collect());
    let mut hs = Vec::new();
    for t in 0..nthreads {
        let seq = seq.clone();
        hs.push(std::thread::spawn(move || {
            // every thread expands input t and the input all threads share (0), in thread-dependent order
            let order = if t % 2 == 0 { [t % INPUTS.len(), 0] } else { [0, t % INPUTS.len()] };
            for i in order {
                let s = expand(i);
                if s != seq[i] {
                    eprintln!("C20-MIRI-MISMATCH input {} thread {}", i, t);
                    std::process::exit(1);
                }
            }
        }));
    }
    for h in hs {
        h.join().unwrap();
    }
    println!("C20-MIRI-OK threads={} expansions={}", nthreads, INPUTS.len() + 2 * nthreads);
}
