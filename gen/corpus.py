#!/usr/bin/env python3
"""Write generated programs as bins of the corpus crate (one bin per chunk)."""
import os, sys, json
sys.path.insert(0, os.path.dirname(os.path.abspath(__file__)))
import simgen

SLICE_BASE = {'ops': 10000, 'wrap': 20000, 'steps': 30000, 'try': 40000, 'handler': 50000, 'pos': 60000, 'opts': 70000,
              'grid': 80000, 'nest': 90000, 'anchor': 1000, 'optsf': 75000}


CHUNK = {'grid': 2, 'nest': 8}


def build_slice(slice_name, tier, seed):
    return simgen.slice_programs(slice_name, tier, seed, SLICE_BASE[slice_name])


def chunks(progs, n):
    return [progs[i:i + n] for i in range(0, len(progs), n)]


def write_if_changed(path, content):
    if os.path.exists(path):
        with open(path) as f:
            if f.read() == content:
                return False
    with open(path, 'w') as f:
        f.write(content)
    return True


def write_corpus(crate_dir, slices, tier, seed, chunk_size=10, stubs=None):
    """returns {bin name: [program ids]}"""
    bindir = os.path.join(crate_dir, 'src', 'bin')
    os.makedirs(bindir, exist_ok=True)
    index = {}
    wanted = set()
    for s in slices:
        progs = build_slice(s, tier, seed)
        for ci, ch in enumerate(chunks(progs, chunk_size)):
            name = '%s_%03d' % (s, ci)
            wanted.add(name + '.rs')
            write_if_changed(os.path.join(bindir, name + '.rs'), simgen.emit_chunk(ch, stubs))
            index[name] = [p.pid for p in ch]
    return index


if __name__ == '__main__':
    crate, tier, seed = sys.argv[1], sys.argv[2], int(sys.argv[3])
    slices = sys.argv[4].split(',')
    idx = write_corpus(crate, slices, tier, seed)
    print(json.dumps(idx))
