#!/usr/bin/env python3
"""Seeded, typed generator of join-DSL programs and their reference models.

For every program P it emits
  * run_P_<kind>()   the macro invocation under each macro kind of P's family
  * ref_P()          the reference: plain method chains, sequential, step by step
  * static metadata  (events, invocations) for the oracles

Determinism: one random.Random per program seeded from (master seed, slice, index); no set
or dict-order dependence (dicts are insertion ordered, sets are never iterated).
"""
import random, sys
from dataclasses import dataclass, field
from typing import List, Optional, Tuple

CALLER = 0xFFFF
STEP_HANDLER = 0xFFFF

# ------------------------------------------------------------------------------------------
# types
# ------------------------------------------------------------------------------------------
TOK = ('Tok',)
ETOK = ('ETok',)
USIZE = ('Usize',)
BOOL = ('Bool',)
UNIT = ('Unit',)


def Opt(t): return ('Opt', t)
def Res(t): return ('Res', t)
def Vec(t): return ('Vec', t)
def Iter(t): return ('Iter', t)
def Pair(a, b): return ('Pair', a, b)
def Fut(t): return ('Fut', t)


def rs(t):
    k = t[0]
    if k == 'Tok': return 'w::Tok'
    if k == 'ETok': return 'w::ETok'
    if k == 'Usize': return 'usize'
    if k == 'Bool': return 'bool'
    if k == 'Unit': return '()'
    if k == 'Opt': return 'Option<%s>' % rs(t[1])
    if k == 'Res': return 'Result<%s, w::ETok>' % rs(t[1])
    if k == 'Vec': return 'Vec<%s>' % rs(t[1])
    if k == 'Pair': return '(%s, %s)' % (rs(t[1]), rs(t[2]))
    raise ValueError('type not nameable: %r' % (t,))


def is_val(t):
    k = t[0]
    if k in ('Tok', 'ETok', 'Usize', 'Bool', 'Unit'): return True
    if k in ('Iter', 'Fut'): return False
    return all(is_val(x) for x in t[1:])


def has_iter(t):
    if t[0] == 'Iter': return True
    return any(has_iter(x) for x in t[1:] if isinstance(x, tuple))


def size_of(t):
    return 1 + sum(size_of(x) for x in t[1:] if isinstance(x, tuple))


# ------------------------------------------------------------------------------------------
# program structure
# ------------------------------------------------------------------------------------------
@dataclass
class Cap:
    ev: int
    snap: Optional[str] = None      # name of the branch variable snapshotted
    snap_mut: bool = False          # ... through `&mut name` (needs the `mut` of `let mut name`)
    ctl: str = ''                   # never-taken control flow of the CALLING function (macro form only): return / continue / break
    silent: bool = False            # block without a marker statement: `{ expr }` (the operand's own evaluation is the event)
    pre: str = ''                   # extra statements (nested invocation in a capture)
    pre_ref: str = ''


@dataclass
class Operand:
    expr: str                        # expression text in the macro form
    cap: Optional[Cap] = None        # block capture
    ref_expr: Optional[str] = None   # expression text in the reference (default: expr)

    def macro_src(self):
        if self.cap is None:
            return self.expr
        c = self.cap
        mark = ('w::snap_m(%d, &mut %s);' if c.snap_mut else 'w::snap(%d, &%s);') % (c.ev, c.snap) if c.snap else 'w::cap(%d);' % c.ev
        if c.silent:
            return '{ %s }' % self.expr
        return '{ %s%s%s %s }' % (c.pre, c.ctl, mark, self.expr)

    def ref_text(self):
        r = self.ref_expr
        if r is None:
            return self.expr
        if isinstance(r, str):
            return r
        if isinstance(r, tuple) and r[0] == 'closure':
            _, params, ninv, sel = r
            return '|%s| (%s)%s' % (params, ref_expr(ninv), sel)
        return ref_expr(r)      # a nested invocation

    def ref_block(self):
        c = self.cap
        mark = ('w::snap_m(%d, &mut %s);' if c.snap_mut else 'w::snap(%d, &%s);') % (c.ev, c.snap) if c.snap else 'w::cap(%d);' % c.ev
        pre_ref = c.pre_ref if isinstance(c.pre_ref, str) else 'let _n = %s; ' % ref_expr(c.pre_ref)
        if c.silent:
            return '{ %s }' % self.ref_text()
        return '{ %s%s %s }' % (pre_ref, mark, self.ref_text())

    def ref_src(self):
        if self.cap is None:
            return self.ref_text()
        return 'c%d' % self.cap.ev


@dataclass
class Act:
    op: str                          # operator tokens
    form: str                        # 'method' | 'then' | 'inspect' | 'raw'
    method: str = ''                 # method name for 'method'
    operands: List[Operand] = field(default_factory=list)
    raw: str = ''                    # text after the operator for 'raw' forms (dot, collect, unzip, flatten, enumerate)
    raw_ref: str = ''                # method-chain text for 'raw' forms
    inner: Optional[list] = None     # wrapper: inner chain (list of Act)
    close: bool = True               # wrapper: explicit <<<
    deferred: bool = False
    by_ref: bool = False             # wrapper closure receives a reference


@dataclass
class Branch:
    name: Optional[str]
    mutable: bool
    init: Operand
    steps: List[List[Act]]           # steps[0] may be empty
    types: List[tuple]               # type after each step
    index: int = 0


@dataclass
class Handler:
    kind: str                        # 'map' | 'and_then' | 'then'
    ev: int
    position: int                    # index among the branches where the handler is written
    body_fn: str                     # w::h / w::h_o / w::h_r / w::ah / w::ah_r
    pre: str = ''                    # nested invocation evaluated inside the handler body (macro form)
    pre_ref: str = ''
    early_return: bool = False       # closure body leaves through `return`
    path_form: bool = False          # handler written as a multi-segment function path: `map => w::hf2::<ev, _, _>`
    def_ev: Optional[int] = None     # handler written as a block `{ w::cap(ev); |..| .. }`: the handler EXPRESSION is evaluated once, up front


@dataclass
class Inv:
    inv: int
    kind: Optional[str]              # None: top-level (varies)
    is_try: bool
    is_async: bool
    flavor: str                      # 'opt' | 'res' | ''
    branches: List[Branch] = field(default_factory=list)
    handler: Optional[Handler] = None
    options: str = ''                # option prefix text
    joiner: Optional[dict] = None
    result_ty: Optional[tuple] = None
    notranspose: bool = False        # sync try macro with transpose_results(false): steps hand over UNWRAPPED values
    ref_step_pre: dict = field(default_factory=dict)   # step -> statements of the reference placed in front of the step


@dataclass
class EvMeta:
    ev: int
    kind: str
    failable: bool
    inv: int
    branch: int
    step: int
    snap: bool = False
    eager: bool = False


class Ctx:
    def __init__(self, rng, profile):
        self.rng = rng
        self.p = profile
        self.next_ev = 1
        self.next_inv = 0
        self.evs: List[EvMeta] = []
        self.invs: List[Inv] = []
        self.cur_inv = 0
        self.cur_branch = 0
        self.cur_step = 0
        self.in_capture = False
        self.caps: List[Tuple[Cap, int, int, int]] = []   # (cap, inv, branch, step)
        self.nest_budget = profile.get('nest_depth', 0)
        self.ctlflow = False     # some capture contains control flow of the calling function
        self.envmut = False      # one closure operand mutates the caller-side local `__cnt` (plain join!/try_join! only)
        self.kwvars = []         # (name, expr): callbacks bound to local variables named like handler keywords, before the macro
        self.multi_call = 0      # > 0 while generating the inner chain of a closure that is called per element
        self.no_caps = 0         # > 0 where a block capture would be borrowed by a non-move closure that must be 'static
        self.async_depth = 0     # > 0 while generating anything evaluated inside an async macro
        self.is_async = False

    def ev(self, kind, failable=False, caller=False):
        e = self.next_ev
        self.next_ev += 1
        self.evs.append(EvMeta(e, kind, failable, self.cur_inv, CALLER if caller else self.cur_branch, self.cur_step))
        return e

    def chance(self, p):
        return self.rng.random() < p

    def pick_w(self, items):
        """items: list of (weight, value)"""
        tot = sum(it[0] for it in items)
        x = self.rng.random() * tot
        for it in items:
            x -= it[0]
            if x <= 0:
                return it[1]
        return items[-1][1]


# ------------------------------------------------------------------------------------------
# operand shapes
# ------------------------------------------------------------------------------------------
def shape(ctx, expr, args=None, ret=None, hoistable=True, byref=False, turbofish=None):
    """Wrap callback expression `expr` into one of the operand shapes.
    args: list of argument types (by value) when the callback may be written as a closure literal."""
    shapes = [(5, 'call'), (1, 'paren')]
    if hoistable and ctx.p.get('captures', 0.15) > 0 and not ctx.in_capture and ctx.no_caps == 0:
        shapes.append((10 * ctx.p.get('captures', 0.15), 'block'))
    if args is not None and not byref and all(is_val(a) for a in args) and ctx.p.get('closures', 0.2) > 0:
        w = 10 * ctx.p.get('closures', 0.2)
        shapes += [(w * 0.4, 'closure'), (w * 0.2, 'move'), (w * 0.4 if ret is not None and is_val(ret) else 0, 'ret')]
        if (ctx.p.get('envmut', 0.0) > 0 and not ctx.envmut and not ctx.is_async and ctx.async_depth == 0 and ctx.cur_inv == 0 and not ctx.in_capture
                and ctx.cur_step != STEP_HANDLER):
            shapes.append((10 * ctx.p.get('envmut', 0.0), 'envmut'))
    if turbofish is not None and ctx.p.get('turbofish', 0.1) > 0:
        shapes.append((10 * ctx.p.get('turbofish', 0.1), 'turbofish'))
    if ctx.p.get('opnoise', 0.0) > 0:
        shapes.append((10 * ctx.p.get('opnoise', 0.0), 'opnoise'))
    if (ctx.p.get('kwvars', 0.02) > 0 and ctx.cur_inv == 0 and ctx.multi_call == 0 and not ctx.in_capture and len(ctx.kwvars) < 3
            and ctx.cur_step != STEP_HANDLER and ctx.no_caps == 0):
        # (no_caps > 0: inside a non-move wrapper closure that must be 'static — a borrowed local is as illegal there as a capture)
        shapes.append((10 * ctx.p.get('kwvars', 0.02), 'kwvar'))
    if ctx.p.get('mk', 0.08) > 0:
        shapes.append((10 * ctx.p.get('mk', 0.08), 'mk'))
    if ctx.p.get('exotic', 0.05) > 0 and expr.startswith('w::'):
        shapes.append((10 * ctx.p.get('exotic', 0.05), 'exotic'))
    s = ctx.pick_w(shapes)
    if s == 'exotic':
        # expression forms a user may legally write as an operand: keyword expressions ending in a brace group, operator
        # look-alikes in front of it (or-patterns, comparison), `->` / `,` / `>>` inside a turbofish, closures returning the
        # callback. Constructing a callback is silent, so writing `expr` in two arms changes nothing observable.
        forms = EXOTIC_FORMS
        k = ctx.p.get('exotic_form')
        f = forms[k] if k is not None else ctx.rng.choice(forms)
        return Operand(f.replace('EXPR', expr))
    if s == 'mk':
        # the evaluation of the (non-block) operand EXPRESSION itself is an event: exactly once, where the documented method
        # call evaluates its argument
        e = ctx.ev('Mk', False)
        return Operand('w::mk(%d, %s)' % (e, expr))
    if s == 'kwvar':
        # the operand is a plain identifier spelled like a handler keyword (`|> map => ..` must still be map + and_then)
        name = [n for n in ('map', 'then', 'and_then') if n not in [k[0] for k in ctx.kwvars]][0]
        ctx.kwvars.append((name, expr))
        return Operand(name)
    if s == 'opnoise':
        # a complete operand whose prefix is complete too, followed by an operator look-alike
        op = ctx.p.get('opnoise_op') or ctx.rng.choice(SH_OPS)
        return Operand('w::sh(%s) %s 0' % (expr, op))
    if s == 'turbofish':
        return Operand(turbofish)
    if s == 'call':
        return Operand(expr)
    if s == 'paren':
        return Operand('(%s)' % expr)
    if s == 'block':
        return Operand(expr, cap=new_cap(ctx))
    names = ['x', 'y']
    params = ', '.join('%s: %s' % (names[i], rs(a)) for i, a in enumerate(args))
    call = '(%s)(%s)' % (expr, ', '.join(names[:len(args)]))
    if ctx.chance(ctx.p.get('guard_noise', 0.25)):
        # operator look-alikes at the top level of a NOT YET complete operand
        call = 'if %s { %s } else { unreachable!() }' % (ctx.rng.choice(GUARD_NOISE), call)
    if s == 'envmut':
        # the closure mutates a Copy local of the caller BY REFERENCE; the run function reads it after the macro
        ctx.envmut = True
        return Operand('|%s| { __cnt += 1; %s }' % (params, call))
    if s == 'closure':
        return Operand('|%s| %s' % (params, call))
    if s == 'move':
        return Operand('move |%s| %s' % (params, call))
    return Operand('|%s| -> %s { %s }' % (params, rs(ret), call))


EXOTIC_FORMS = [
    'match 1u8 { 0 | 2 if 1 < 2 => EXPR, _ => EXPR }',
    'if 1 < 2 { EXPR } else { EXPR }',
    'if let Some(_) | None = Some(1u8) { EXPR } else { EXPR }',
    'w::idf::<fn(u8) -> u8, _>(EXPR)',
    'w::idf::<Vec<Vec<u8>>, _>(EXPR)',
    'unsafe { EXPR }',
    'loop { break EXPR; }',
    '[EXPR; 1][0]',
    '(EXPR, 0u8).0',
    '(|| EXPR)()',
    '(|_: u8| -> _ { EXPR })(0)',
    '*&EXPR',
    "w::lit(EXPR, '>', \"~=> |> <<< , ->\")",
    'simrt::idm![EXPR]',
    'simrt::idm!(EXPR)',
    'w::Wr { f: EXPR }.f',
    'w::idr(EXPR, 0..=2)',
]
SH_OPS = ['<<', '>>', '|', '^', '&', '+', '-', '*', '/', '%']
GUARD_NOISE = ['1u32 << 1 > 0', '8u32 >> 1 > 0', '1 < 2', '2 > 1', 'true && !false', 'true || false', '3u8 ^ 1 != 0', '1u32 << 1 >> 1 < 2',
               '-1i32 < 0', 'matches!(1u8, 0..=2)', '!(1 > 2)', '1u8 & 1 == 1']


def new_cap(ctx):
    e = ctx.next_ev
    ctx.next_ev += 1
    ctx.evs.append(EvMeta(e, 'Cap', False, ctx.cur_inv, CALLER, ctx.cur_step))
    c = Cap(e)
    if (ctx.p.get('ctlflow', 0.04) > 0 and ctx.cur_inv == 0 and not ctx.is_async and ctx.async_depth == 0 and ctx.cur_step != STEP_HANDLER
            and ctx.chance(ctx.p.get('ctlflow', 0.04))):
        # a block capture is a plain block of the calling function: `return`, `continue` and `break` in it refer to that function and
        # to the loop the run function wraps around the macro (never taken; they only have to keep compiling)
        c.ctl = ctx.rng.choice(['if false { return ::std::string::String::new(); } ', 'if false { continue; } ', 'if false { break; } '])
        ctx.ctlflow = True
    ctx.caps.append((c, ctx.cur_inv, ctx.cur_branch, ctx.cur_step))
    if ctx.nest_budget > 0 and ctx.chance(ctx.p.get('nest_cap', 0.0)):
        saved = (ctx.cur_inv, ctx.cur_branch, ctx.cur_step)
        outer_async = ctx.is_async
        ks = nested_kinds_for(ctx, outer_async, 'cap')
        # events of the nested invocation are evaluated by the caller, inside the capture
        ctx.cur_branch = CALLER
        try:
            got = gen_nested(ctx, ks) if ks else None
        except Retry:
            got = None
        ctx.cur_inv, ctx.cur_branch, ctx.cur_step = saved
        if got is not None:
            ninv, nkind, nty = got
            c.pre = 'let _n = %s; ' % macro_expr(ninv, nkind)
            c.pre_ref = ninv
    return c


def silent_cap(ctx):
    """a block capture without statements: `{ w::init::<T>(ev) }` — hoisted like any block; its evaluation is the init event"""
    e = ctx.next_ev
    ctx.next_ev += 1
    return Cap(e, silent=True)


def value_operand(ctx, ty, failable=None):
    """`w::init::<T>(ev)` as an operand value (or, zip, chain, fold seed, unwrap_or ...)."""
    if failable is None:
        failable = ty[0] in ('Opt', 'Res')
    e = ctx.ev('Init', failable)
    expr = 'w::init::<%s>(%d)' % (rs(ty), e)
    if ctx.p.get('captures', 0.15) > 0 and not ctx.in_capture and ctx.multi_call == 0 and ctx.no_caps == 0 and ctx.chance(ctx.p.get('captures', 0.15)):
        return Operand(expr, cap=(silent_cap(ctx) if ctx.chance(0.3) else new_cap(ctx)))
    return Operand(expr)


# ------------------------------------------------------------------------------------------
# synchronous action candidates
# ------------------------------------------------------------------------------------------
def nested_closure_cb(ctx, fn, argtys, ret, failable):
    """operand shape (d): a closure literal whose body is a nested macro invocation evaluating the callback:
    `|x: T| join_spawn! { (w::m(e))(x), w::init::<w::Tok>(e2) }.0` — one invocation instance per call"""
    if ctx.async_depth > 0:
        kind, two = 'join', ctx.chance(0.5)
    else:
        kind, two = ctx.rng.choice(['join', 'join_spawn', 'spawn']), ctx.chance(0.6)
    ctx.nest_budget -= 1
    inv = Inv(ctx.next_inv, kind, False, False, '')
    ctx.next_inv += 1
    ctx.invs.append(inv)
    saved = (ctx.cur_inv, ctx.cur_branch, ctx.cur_step)
    ctx.cur_inv, ctx.cur_branch, ctx.cur_step = inv.inv, 0, 0
    e = ctx.ev('Call', failable)
    call = '(w::%s(%d))(%s)' % (fn, e, ', '.join('x%d' % i for i in range(len(argtys))))
    b0 = Branch(None, False, Operand(call), [[]], [ret], 0)
    inv.branches.append(b0)
    if two:
        ctx.cur_branch = 1
        e2 = ctx.ev('Init', False)
        inv.branches.append(Branch(None, False, Operand('w::init::<w::Tok>(%d)' % e2), [[]], [TOK], 1))
    ctx.cur_inv, ctx.cur_branch, ctx.cur_step = saved
    inv.result_ty = ret
    params = ', '.join('x%d: %s' % (i, rs(a)) for i, a in enumerate(argtys))
    sel = '.0' if two else ''
    macro = '|%s| %s%s' % (params, macro_expr(inv, kind), sel)
    op = Operand(macro, ref_expr=('closure', params, inv, sel))
    return op


def cb(ctx, fn, argtys, ret, failable=False, byref=False, tf=None):
    """callback operand `w::<fn>(ev)`"""
    if (not byref and argtys and ret is not None and all(is_val(a) for a in argtys) and is_val(ret) and ctx.nest_budget > 0 and not ctx.in_capture
            and fn in ('m', 'flat', 'at_o', 'at_r', 'fm', 'am') and ctx.chance(ctx.p.get('nest_closure', 0.0))):
        return nested_closure_cb(ctx, fn, argtys, ret, failable)
    e = ctx.ev('Call', failable)
    expr = 'w::%s(%d)' % (fn, e)
    turbofish = None
    if tf is not None and all(is_val(a) for a in [tf]):
        turbofish = 'w::%s::<%s>(%d)' % (fn, rs(tf), e)
    return shape(ctx, expr, args=argtys, ret=ret, byref=byref, turbofish=turbofish)


def flat_cb(ctx, T):
    """`w::flat(ev)`; in async kinds always with a turbofish: the macro re-wraps step results in
    `Ok(..)` with a fresh error type that a consuming callback must pin"""
    if ctx.is_async:
        e = ctx.ev('Call', False)
        expr = 'w::flat::<%s>(%d)' % (rs(T), e)
        if ctx.no_caps == 0 and ctx.p.get('captures', 0.15) > 0 and not ctx.in_capture and ctx.chance(ctx.p.get('captures', 0.15)):
            return Operand(expr, cap=new_cap(ctx))
        return Operand(expr)
    return cb(ctx, 'flat', [T], TOK, tf=T)


def sync_cands(ctx, t, depth, tail, inner_ref=False):
    """Candidate builders for a value of type `t`. Each builder returns (Act, new type).
    depth: wrapper nesting depth so far; tail: a wrapper left open here would still be legal."""
    c = []
    W = ctx.p.get('ops', {})

    def w(name, base):
        return base * W.get(name, 1.0)

    k = t[0]
    V = is_val(t)
    maxd = ctx.p.get('wrap_depth', 2)
    wrapw = ctx.p.get('wrappers', 0.5) if depth < maxd else 0.0

    if V:
        c.append((w('then', 2), lambda: (Act('->', 'then', operands=[cb(ctx, 'm', [t], t, tf=t)]), t)))
        c.append((w('then', 0.7), lambda: (Act('->', 'then', operands=[flat_cb(ctx, t)]), TOK)))
        if size_of(t) < 4 and not ctx.is_async:
            c.append((w('then', 0.4), lambda: (Act('->', 'then', operands=[cb(ctx, 'at_r', [t], Res(t), failable=True, tf=t)]), Res(t))))
            c.append((w('then', 0.4), lambda: (Act('->', 'then', operands=[cb(ctx, 'at_o', [t], Opt(t), failable=True, tf=t)]), Opt(t))))
        if not ctx.is_async:
            c.append((w('inspect', 1.5), lambda: (Act('??', 'inspect', operands=[cb(ctx, 'ins', [t], UNIT, byref=True, tf=t)]), t)))
        if size_of(t) < 5:
            c.append((w('then', 0.5), lambda: (Act('->', 'then', operands=[Operand(ctx.rng.choice(['Some', 'w::some']))]), Opt(t))))
            c.append((w('then', 0.5), lambda: (Act('->', 'then', operands=[Operand('w::ok')]), Res(t))))
        if wrapw > 0 and not ctx.is_async:
            c.append((w('inspect_wrap', 1.0) * wrapw, lambda: wrap_ref(ctx, t, '??', 'inspect', '', t, depth, tail, unit=True)))
    if k == 'Opt':
        T = t[1]
        if is_val(T):
            c.append((w('map', 4), lambda: (Act('|>', 'method', 'map', [cb(ctx, 'm', [T], T, tf=T)]), t)))
            c.append((w('map', 1), lambda: (Act('|>', 'method', 'map', [flat_cb(ctx, T)]), Opt(TOK))))
            c.append((w('and_then', 4), lambda: (Act('=>', 'method', 'and_then', [cb(ctx, 'at_o', [T], Opt(T), failable=True, tf=T)]), t)))
            c.append((w('filter', 2), lambda: (Act('?>', 'method', 'filter', [cb(ctx, 'p', [T], BOOL, byref=True, tf=T)]), t)))
            c.append((w('or', 2), lambda: (Act('<|', 'method', 'or', [value_operand(ctx, t)]), t)))
            c.append((w('or_else', 2), lambda: (Act('<=', 'method', 'or_else', [cb(ctx, 'oe_o', [], t, failable=True, tf=T)]), t)))
            if size_of(T) < 4:
                c.append((w('zip', 1), lambda: (Act('>^>', 'method', 'zip', [value_operand(ctx, Opt(TOK))]), Opt(Pair(T, TOK)))))
                c.append((w('map', 0.5), lambda: (Act('|>', 'method', 'map', [Operand('Some')]), Opt(Opt(T)))))
            c.append((w('dot', 1), lambda: dot_ok_or(ctx, t)))
            c.append((w('dot', 0.4), lambda: (raw(ctx.rng.choice(['..', '>.']), 'is_some()'), BOOL)))
            c.append((w('dot', 1), lambda: (raw(ctx.rng.choice(['..', '>.']), 'into_iter()'), Iter(T))))
            c.append((w('dot', 0.7), lambda: dot_unwrap_or(ctx, t)))
            if wrapw > 0:
                c.append((w('map_wrap', 2) * wrapw, lambda: wrap_val(ctx, T, '|>', 'map', None, lambda u: Opt(u), depth, tail)))
                c.append((w('and_then_wrap', 2) * wrapw, lambda: wrap_val(ctx, T, '=>', 'and_then', 'Opt', lambda u: u, depth, tail)))
                c.append((w('filter_wrap', 1.5) * wrapw, lambda: wrap_ref(ctx, T, '?>', 'method', 'filter', t, depth, tail)))
        elif T[0] == 'Iter' and wrapw > 0:
            c.append((w('map_wrap', 4) * max(wrapw, 0.5), lambda: wrap_val(ctx, T, '|>', 'map', None, lambda u: Opt(u), depth, tail)))
            c.append((w('and_then_wrap', 2) * max(wrapw, 0.5), lambda: wrap_val(ctx, T, '=>', 'and_then', 'Opt', lambda u: u, depth, tail)))
        if T[0] == 'Opt':
            c.append((w('flatten', 3), lambda: (raw('^^>', '', '.flatten()'), T)))
        if T[0] == 'Pair' and is_val(T):
            c.append((w('unzip', 3), lambda: (raw('<->', '', '.unzip()'), Pair(Opt(T[1]), Opt(T[2])))))
    if k == 'Res':
        T = t[1]
        if is_val(T):
            c.append((w('map', 4), lambda: (Act('|>', 'method', 'map', [cb(ctx, 'm', [T], T, tf=T)]), t)))
            c.append((w('map', 1), lambda: (Act('|>', 'method', 'map', [flat_cb(ctx, T)]), Res(TOK))))
            c.append((w('and_then', 4), lambda: (Act('=>', 'method', 'and_then', [cb(ctx, 'at_r', [T], Res(T), failable=True, tf=T)]), t)))
            c.append((w('or', 2), lambda: (Act('<|', 'method', 'or', [value_operand(ctx, t)]), t)))
            c.append((w('or_else', 2), lambda: (Act('<=', 'method', 'or_else', [cb(ctx, 'oe_r', [ETOK], t, failable=True, tf=T)]), t)))
            c.append((w('map_err', 2), lambda: (Act('!>', 'method', 'map_err', [cb(ctx, 'me', [ETOK], ETOK)]), t)))
            c.append((w('dot', 1), lambda: (raw(ctx.rng.choice(['..', '>.']), 'ok()'), Opt(T))))
            c.append((w('dot', 0.4), lambda: (raw('..', 'is_ok()'), BOOL)))
            c.append((w('dot', 0.7), lambda: (raw('..', 'into_iter()'), Iter(T))))
            if wrapw > 0:
                c.append((w('map_wrap', 2) * wrapw, lambda: wrap_val(ctx, T, '|>', 'map', None, lambda u: Res(u), depth, tail)))
                c.append((w('and_then_wrap', 2) * wrapw, lambda: wrap_val(ctx, T, '=>', 'and_then', 'Res', lambda u: u, depth, tail)))
                c.append((w('or_else_wrap', 1.5) * wrapw, lambda: wrap_val(ctx, ETOK, '<=', 'or_else', ('exact', t), lambda u: t, depth, tail)))
                c.append((w('map_err_wrap', 1.5) * wrapw, lambda: wrap_val(ctx, ETOK, '!>', 'map_err', ('exact', ETOK), lambda u: t, depth, tail)))
        elif T[0] == 'Iter' and wrapw > 0:
            c.append((w('map_wrap', 4) * max(wrapw, 0.5), lambda: wrap_val(ctx, T, '|>', 'map', None, lambda u: Res(u), depth, tail)))
    if k == 'Vec':
        T = t[1]
        c.append((w('dot', 5), lambda: (raw(ctx.rng.choice(['..', '>.']), 'into_iter()'), Iter(T))))
        c.append((w('dot', 0.5), lambda: (raw('..', 'len()'), USIZE)))
    if k == 'Pair':
        A, B = t[1], t[2]
        c.append((w('dot', 1.5), lambda: (raw('..', '0'), A)))
        c.append((w('dot', 1.5), lambda: (raw('..', '1'), B)))
    if k == 'Iter':
        T = t[1]
        small = size_of(T) < 4
        if is_val(T):
            c.append((w('map', 3), lambda: (Act('|>', 'method', 'map', [cb(ctx, 'm', [T], T, tf=T)]), t)))
            c.append((w('map', 1), lambda: (Act('|>', 'method', 'map', [flat_cb(ctx, T)]), Iter(TOK))))
            c.append((w('filter', 2.5), lambda: (Act('?>', 'method', 'filter', [cb(ctx, 'p', [T], BOOL, byref=True, tf=T)]), t)))
            c.append((w('filter_map', 2.5), lambda: (Act('?|>', 'method', 'filter_map', [cb(ctx, 'fm', [T], Opt(T), tf=T)]), t)))
            if small:
                c.append((w('enumerate', 1.5), lambda: (raw('|n>', '', '.enumerate()'), Iter(Pair(USIZE, T)))))
                c.append((w('zip', 2), lambda: (Act('>^>', 'method', 'zip', [value_operand(ctx, Vec(TOK))]), Iter(Pair(T, TOK)))))
            c.append((w('chain', 3), lambda: (Act('>@>', 'method', 'chain', [value_operand(ctx, Vec(T))]), t)))
            if ctx.is_async:
                # in the async macros `??` is `.inspect(expr)` on whatever the receiver is: Iterator::inspect here
                c.append((w('inspect', 1.5), lambda: (Act('??', 'method', 'inspect', [cb(ctx, 'ins', [T], UNIT, byref=True, tf=T)]), t)))
            c.append((w('collect', 3), lambda: (raw('=>[]', 'Vec<_>', '.collect::<Vec<_>>()'), Vec(T))))
            c.append((w('collect', 0.7), lambda: (raw('=>[]', rs(Vec(T)), '.collect::<%s>()' % rs(Vec(T))), Vec(T))))
            c.append((w('collect', 0.8), lambda: ([raw('=>[]', '', '.collect()'), pin_act(Vec(T))], Vec(T))))
            c.append((w('find_map', 2.5), lambda: (Act('?|>@', 'method', 'find_map', [cb(ctx, 'fm', [T], Opt(T), tf=T)]), Opt(T)), 'mutself'))
            c.append((w('find', 2.5), lambda: (Act('?@', 'method', 'find', [cb(ctx, 'p', [T], BOOL, byref=True, tf=T)]), Opt(T)), 'mutself'))
            c.append((w('partition', 2), lambda: partition(ctx, T)))
            c.append((w('fold', 2.5), lambda: (Act('^@', 'method', 'fold', [value_operand(ctx, TOK), cb(ctx, 'f2', [TOK, T], TOK, tf=T)]), TOK)))
            c.append((w('try_fold', 1.5), lambda: (Act('?^@', 'method', 'try_fold', [value_operand(ctx, TOK), cb(ctx, 'tf2_o', [TOK, T], Opt(TOK), failable=True, tf=T)]), Opt(TOK)), 'mutself'))
            c.append((w('try_fold', 1.5), lambda: (Act('?^@', 'method', 'try_fold', [value_operand(ctx, TOK), cb(ctx, 'tf2_r', [TOK, T], Res(TOK), failable=True, tf=T)]), Res(TOK)), 'mutself'))
            c.append((w('dot', 0.5), lambda: (raw('..', 'count()'), USIZE)))
            c.append((w('dot', 0.7), lambda: (raw('..', 'last()'), Opt(T))))
            c.append((w('dot', 0.5), lambda: (raw('>.', 'nth(1)'), Opt(T)), 'mutself'))
            if T[0] == 'Opt':
                c.append((w('collect', 2), lambda: (raw('=>[]', 'Option<Vec<_>>', '.collect::<Option<Vec<_>>>()'), Opt(Vec(T[1])))))
            if T[0] == 'Res':
                c.append((w('collect', 2), lambda: (raw('=>[]', 'Result<Vec<_>, w::ETok>', '.collect::<Result<Vec<_>, w::ETok>>()'), Res(Vec(T[1])))))
            if T[0] in ('Vec', 'Opt'):
                c.append((w('flatten', 3), lambda: (raw('^^>', '', '.flatten()'), Iter(T[1]))))
            if T[0] == 'Pair':
                A, B = T[1], T[2]
                c.append((w('unzip', 2), lambda: (raw('<->', '%s, %s, Vec<%s>, Vec<%s>' % (rs(A), rs(B), rs(A), rs(B)), '.unzip::<%s, %s, Vec<%s>, Vec<%s>>()' % (rs(A), rs(B), rs(A), rs(B))), Pair(Vec(A), Vec(B)))))
                c.append((w('unzip', 1), lambda: unzip_untyped(ctx, A, B)))
            if wrapw > 0:
                c.append((w('map_wrap', 2) * wrapw, lambda: wrap_val(ctx, T, '|>', 'map', 'val', lambda u: Iter(u), depth, tail)))
                c.append((w('filter_wrap', 1.5) * wrapw, lambda: wrap_ref(ctx, T, '?>', 'method', 'filter', t, depth, tail)))
                c.append((w('filter_map_wrap', 1.5) * wrapw, lambda: wrap_val(ctx, T, '?|>', 'filter_map', 'OptVal', lambda u: Iter(u[1]), depth, tail)))
                c.append((w('find_wrap', 1.5) * wrapw, lambda: wrap_ref(ctx, T, '?@', 'method', 'find', Opt(T), depth, tail), 'mutself'))
                c.append((w('find_map_wrap', 1.5) * wrapw, lambda: wrap_val(ctx, T, '?|>@', 'find_map', 'OptVal', lambda u: u, depth, tail), 'mutself'))
                c.append((w('partition_wrap', 1.2) * wrapw, lambda: partition_wrap(ctx, T, depth, tail)))
    return [x for x in c if x[0] > 0]


def raw(op, text, ref=None):
    a = Act(op, 'raw', raw=text)
    a.raw_ref = ref if ref is not None else '.' + text
    return a


def dot_ok_or(ctx, t):
    o = value_operand(ctx, ETOK, failable=False)
    o.cap = None if o.cap is None else o.cap
    # a member-access operand is not hoisted: keep it a plain expression
    if o.cap is not None:
        ctx.caps[:] = [x for x in ctx.caps if x[0] is not o.cap]
        ctx.evs[:] = [e for e in ctx.evs if e.ev != o.cap.ev]
        o.cap = None
    return (raw('..', 'ok_or(%s)' % o.expr), Res(t[1]))


def dot_unwrap_or(ctx, t):
    o = value_operand(ctx, t[1], failable=False)
    if o.cap is not None:
        ctx.caps[:] = [x for x in ctx.caps if x[0] is not o.cap]
        ctx.evs[:] = [e for e in ctx.evs if e.ev != o.cap.ev]
        o.cap = None
    return (raw('..', 'unwrap_or(%s)' % o.expr), t[1])


def pin_act(ty):
    return Act('->', 'then', operands=[Operand('w::pin::<%s>' % rs(ty))])


def partition(ctx, T):
    ty = Pair(Vec(T), Vec(T))
    a = Act('?&!>', 'method', 'partition', [cb(ctx, 'p', [T], BOOL, byref=True, tf=T)])
    return ([a, pin_act(ty)], ty)


def unzip_untyped(ctx, A, B):
    ty = Pair(Vec(A), Vec(B))
    return ([raw('<->', '', '.unzip()'), pin_act(ty)], ty)


def partition_wrap(ctx, T, depth, tail):
    ty = Pair(Vec(T), Vec(T))
    a, _ = wrap_ref(ctx, T, '?&!>', 'method', 'partition', ty, depth, False)
    return ([a, pin_act(ty)], ty)


def wrap_ref(ctx, T, op, form, method, result, depth, tail, unit=False):
    """wrapper whose closure receives `&T` and must yield bool (or () for inspect)"""
    inner = []
    lazy = ctx.is_async or result[0] == 'Iter'
    if lazy:
        ctx.no_caps += 1
    try:
        return _wrap_ref(ctx, T, op, form, method, result, depth, tail, unit)
    finally:
        if lazy:
            ctx.no_caps -= 1


def _wrap_ref(ctx, T, op, form, method, result, depth, tail, unit=False):
    inner = []
    if unit:
        inner.append(Act('->', 'then', operands=[cb(ctx, 'ins', [T], UNIT, byref=True)]))
    else:
        if T[0] == 'Opt' and ctx.chance(0.3):
            inner.append(raw('..', 'is_some()'))
            if ctx.chance(0.5):
                inner.append(Act('->', 'then', operands=[cb(ctx, 'pv', [BOOL], BOOL)]))
        else:
            inner.append(Act('->', 'then', operands=[cb(ctx, 'p', [T], BOOL, byref=True)]))
    close = True if not tail else ctx.chance(0.6)
    a = Act(op, form, method, inner=inner, close=close, by_ref=True)
    return (a, result)


def wrap_val(ctx, T, op, method, need, result_of, depth, tail):
    """wrapper whose closure receives T by value. need: None (any type), 'val' (any Val type),
    'Opt' / 'Res' (must end in that class), 'OptVal' (Option of a Val), ('exact', ty)."""
    open_tail = tail and ctx.chance(0.4)
    multi = need in ('val', 'OptVal')      # iterator wrappers: closure called once per element
    if multi:
        ctx.multi_call += 1
    # a block capture inside a wrapper is borrowed by the (non-move) wrapper closure: the closure must not
    # outlive the step (lazy iterator adaptors in the spawn kinds) nor be required to be 'static (async kinds)
    lazy_closure = multi and result_of(Opt(TOK))[0] in ('Iter', 'Str')      # the wrapper closure is stored in a lazy adaptor
    if ctx.is_async or lazy_closure:
        ctx.no_caps += 1
    try:
        if isinstance(need, tuple):
            # closure over the error value: keep the inner chain type preserving
            inner, u = [], T
            if ctx.chance(0.5):
                inner.append(Act('->', 'then', operands=[cb(ctx, 'me', [ETOK], ETOK)]))
            if ctx.chance(0.3) and not ctx.is_async:
                inner.append(Act('??', 'inspect', operands=[cb(ctx, 'ins', [ETOK], UNIT, byref=True)]))
        else:
            n = ctx.rng.choice([0, 1, 1, 2, 2, 3])
            inner, u = gen_acts(ctx, T, n, depth + 1, open_tail, sync_only=True, on_param=True)
        inner, u = coerce(ctx, inner, u, need)
    finally:
        if multi:
            ctx.multi_call -= 1
        if ctx.is_async or lazy_closure:
            ctx.no_caps -= 1
    a = Act(op, 'method', method, inner=inner, close=not open_tail)
    return (a, result_of(u))


def close_tail(acts):
    """close explicitly every wrapper that is still open at the tail of `acts`"""
    if acts and acts[-1].inner is not None:
        close_tail(acts[-1].inner)
        acts[-1].close = True


def coerce(ctx, acts, t, need):
    """append actions so that the chain ends in the required class"""
    acts = list(acts)

    def add(a):
        close_tail(acts)
        acts.append(a)

    if need is None:
        return acts, t
    if isinstance(need, tuple) and need[0] == 'exact':
        want = need[1]
        if t == want:
            return acts, t
        if want[0] == 'Res' and t == ETOK:
            # inner chain of `<= >>>`: value is an ETok; produce Result<T, ETok> via oe_r
            add(Act('->', 'then', operands=[cb(ctx, 'oe_r', [ETOK], want, failable=True)]))
            return acts, want
        raise Retry()
    if has_iter(t):
        close_tail(acts)
        acts, t = close_iters(ctx, acts, t)
    if need == 'val':
        return acts, t
    if need == 'Opt' or need == 'OptVal':
        if t[0] == 'Opt':
            return acts, t
        if t[0] == 'Res':
            add(raw('..', 'ok()'))
            return acts, Opt(t[1])
        add(Act('->', 'then', operands=[Operand('Some')]))
        return acts, Opt(t)
    if need == 'Res':
        if t[0] == 'Res':
            return acts, t
        if t[0] == 'Opt':
            a, nt = dot_ok_or(ctx, t)
            add(a)
            return acts, nt
        add(Act('->', 'then', operands=[Operand('w::ok')]))
        return acts, Res(t)
    raise ValueError(need)


class Retry(Exception):
    pass


def close_iters(ctx, acts, t):
    """make the type renderable / Val: collect iterators"""
    acts = list(acts)
    if t[0] == 'Iter':
        acts.append(raw('=>[]', 'Vec<_>', '.collect::<Vec<_>>()'))
        return acts, Vec(t[1])
    if t[0] in ('Opt', 'Res') and t[1][0] == 'Iter':
        inner = [raw('=>[]', 'Vec<_>', '.collect::<Vec<_>>()')]
        acts.append(Act('|>', 'method', 'map', inner=inner, close=True))
        return acts, (t[0], Vec(t[1][1]))
    if has_iter(t):
        raise Retry()
    return acts, t


def gen_acts(ctx, t, n, depth, tail, sync_only=True, on_param=False):
    """generate n actions starting from type t. on_param: the receiver of the first action is
    an immutable closure parameter (methods taking &mut self cannot be applied to it)"""
    acts = []
    for i in range(n):
        last = (i == n - 1)
        cands = sync_cands(ctx, t, depth, tail and last)
        if on_param and i == 0:
            cands = [x for x in cands if len(x) < 3 or x[2] != 'mutself']
        if not cands:
            break
        b = ctx.pick_w(cands)
        a, nt = b()
        if isinstance(a, list):
            # multi-action candidates (partition + pin): never leave them half-way
            acts.extend(a)
        else:
            acts.append(a)
            if a.inner is not None and not a.close:
                t = nt
                break   # an open wrapper swallows everything that follows
        t = nt
        if size_of(t) > 7:
            break
    return acts, t


# ------------------------------------------------------------------------------------------
# rendering of chains: macro form and reference form
# ------------------------------------------------------------------------------------------
def macro_acts(acts):
    out = []
    for a in acts:
        pre = '~' if a.deferred else ''
        if a.inner is not None:
            s = '%s%s >>>' % (pre, a.op)
            inner = macro_acts(a.inner)
            if inner:
                s += ' ' + inner
            if a.close:
                s += ' <<<'
            out.append(s)
        elif a.form == 'raw':
            out.append(('%s%s %s' % (pre, a.op, a.raw)).rstrip())
        else:
            out.append('%s%s %s' % (pre, a.op, ', '.join(o.macro_src() for o in a.operands)))
    return ' '.join(out)


_wcount = [0]
_FUT = ['::futures']     # path of the futures crate used by the reference code of the program being emitted


def ref_apply(recv, acts, is_async=False):
    """apply the actions to receiver expression text, method-chain style"""
    for a in acts:
        if a.inner is not None:
            _wcount[0] += 1
            v = '__w%d' % _wcount[0]
            body = ref_apply(v, a.inner)
            clos = '|mut %s| %s' % (v, body)
            if a.form == 'inspect':
                if is_async:
                    recv = '%s.inspect(%s)' % (recv, clos)
                else:
                    recv = '{ let __x = %s; (%s)(&__x); __x }' % (recv, clos)
            else:
                recv = '%s.%s(%s)' % (recv, a.method, clos)
        elif a.form == 'raw':
            recv = '%s%s' % (recv, a.raw_ref)
        elif a.form == 'then':
            recv = '(%s)(%s)' % (a.operands[0].ref_src(), recv)
        elif a.form == 'inspect':
            if is_async:
                recv = '%s.inspect(%s)' % (recv, a.operands[0].ref_src())
            else:
                recv = '{ let __x = %s; (%s)(&__x); __x }' % (recv, a.operands[0].ref_src())
        else:
            recv = '%s.%s(%s)' % (recv, a.method, ', '.join(o.ref_src() for o in a.operands))
    return recv


def caps_of(acts):
    """block-capture operands in textual order (including inner chains)"""
    out = []
    for a in acts:
        for o in a.operands:
            if o.cap is not None:
                out.append(o)
        if a.inner is not None:
            out.extend(caps_of(a.inner))
    return out


def count_acts(acts):
    return sum(1 + (count_acts(a.inner) if a.inner is not None else 0) for a in acts)


# ------------------------------------------------------------------------------------------
# async action candidates (receiver is a future of X)
# ------------------------------------------------------------------------------------------
def async_cands(ctx, X, depth, tail):
    c = []
    W = ctx.p.get('ops', {})

    def w(name, base):
        return base * W.get(name, 1.0)

    wrapw = ctx.p.get('wrappers', 0.5) if depth < ctx.p.get('wrap_depth', 2) else 0.0
    if not is_val(X):
        return c
    c.append((w('map', 3), lambda: (Act('|>', 'method', 'map', [cb(ctx, 'am', [X], X, tf=X)]), X)))
    c.append((w('map', 0.7), lambda: (Act('|>', 'method', 'map', [flat_cb(ctx, X)]), TOK)))
    c.append((w('inspect', 1.5), lambda: (Act('??', 'inspect', operands=[cb(ctx, 'ins', [X], UNIT, byref=True, tf=X)]), X)))
    c.append((w('then', 2), lambda: (Act('->', 'then', operands=[gate_cb(ctx, 'agate')]), X)))
    c.append((w('dot', 0.7), lambda: (raw('..', 'boxed()'), X)))
    c.append((w('flatten', 1.5), lambda: ([Act('|>', 'method', 'map', [gate_cb(ctx, 'lift')]), raw('^^>', '', '.flatten()')], X)))
    if X[0] == 'Res' and is_val(X[1]):
        T = X[1]
        c.append((w('and_then', 4), lambda: (Act('=>', 'method', 'and_then', [gate_cb(ctx, 'aat', failable=True, args=[T])]), X)))
        c.append((w('or_else', 2), lambda: (Act('<=', 'method', 'or_else', [gate_cb(ctx, 'aoe', failable=True, args=[ETOK], tf=T)]), X)))
        c.append((w('map_err', 2), lambda: (Act('!>', 'method', 'map_err', [cb(ctx, 'me', [ETOK], ETOK)]), X)))
        if wrapw > 0:
            c.append((w('and_then_wrap', 2) * wrapw, lambda: async_wrap_and_then(ctx, T, depth, tail)))
    if wrapw > 0:
        c.append((w('map_wrap', 2) * wrapw, lambda: wrap_val(ctx, X, '|>', 'map', 'val', lambda u: u, depth, tail), 'discards_err'))
    return [x for x in c if x[0] > 0]


def gate_cb(ctx, fn, failable=False, args=None, tf=None):
    """callback that returns a gate future"""
    e = ctx.ev('Call', failable)
    expr = 'w::%s(%d)' % (fn, e)
    if tf is not None and fn == 'aoe':
        expr = 'w::aoe::<%s>(%d)' % (rs(tf), e)
    shapes = [(5, 'call'), (1, 'paren')]
    if ctx.p.get('captures', 0.15) > 0 and not ctx.in_capture and ctx.no_caps == 0:
        shapes.append((10 * ctx.p.get('captures', 0.15), 'block'))
    if args is not None and all(is_val(a) for a in args) and ctx.p.get('closures', 0.2) > 0:
        shapes.append((5 * ctx.p.get('closures', 0.2), 'closure'))
        shapes.append((3 * ctx.p.get('closures', 0.2), 'move'))
    s = ctx.pick_w(shapes)
    if s == 'call':
        return Operand(expr)
    if s == 'paren':
        return Operand('(%s)' % expr)
    if s == 'block':
        return Operand(expr, cap=new_cap(ctx))
    params = ', '.join('x%d: %s' % (i, rs(a)) for i, a in enumerate(args))
    call = '(%s)(%s)' % (expr, ', '.join('x%d' % i for i in range(len(args))))
    return Operand(('move ' if s == 'move' else '') + '|%s| %s' % (params, call))


def async_wrap_and_then(ctx, T, depth, tail):
    """`=> >>> sync chain -> w::lift_r(ev) <<<` : closure T -> TryFuture"""
    n = ctx.rng.choice([0, 1, 2])
    ctx.no_caps += 1
    try:
        inner, u = gen_acts(ctx, T, n, depth + 1, False, on_param=True)
        close_tail(inner)
        if has_iter(u):
            inner, u = close_iters(ctx, inner, u)
        inner.append(Act('->', 'then', operands=[gate_cb(ctx, 'lift_r', failable=True)]))
    finally:
        ctx.no_caps -= 1
    open_tail = tail and ctx.chance(0.4)
    a = Act('=>', 'method', 'and_then', inner=inner, close=not open_tail)
    return (a, Res(u))


def stream_cands(ctx, S, depth, tail):
    """receiver is a stream of T: StreamExt / TryStreamExt combinators; the future-producing ones end the stream"""
    T = S[1]
    c = []
    W = ctx.p.get('ops', {})

    def w(name, base):
        return base * W.get(name, 1.0)

    def Str(t):
        return ('Str', t)
    small = size_of(T) < 4
    c.append((w('map', 3), lambda: (Act('|>', 'method', 'map', [cb(ctx, 'am', [T], T, tf=T)]), S)))
    c.append((w('map', 0.7), lambda: (Act('|>', 'method', 'map', [flat_cb(ctx, T)]), Str(TOK))))
    c.append((w('filter', 2.5), lambda: (Act('?>', 'method', 'filter', [gate_cb(ctx, 'ap')]), S)))
    c.append((w('filter_map', 2.5), lambda: (Act('?|>', 'method', 'filter_map', [gate_cb(ctx, 'afm', args=[T])]), S)))
    c.append((w('inspect', 1.5), lambda: (Act('??', 'method', 'inspect', [cb(ctx, 'ins', [T], UNIT, byref=True, tf=T)]), S)))
    c.append((w('chain', 2.5), lambda: (Act('>@>', 'method', 'chain', [stream_operand(ctx, T)]), S)))
    if small:
        c.append((w('enumerate', 1.5), lambda: (raw('|n>', '', '.enumerate()'), Str(Pair(USIZE, T)))))
        # StreamExt::zip polls both streams in one poll: which items are consumed before the shorter stream ends depends on
        # readiness, so its event set is legitimately schedule dependent; not generated (Iterator zip is)
    # terminal (future-producing) combinators
    c.append((w('collect', 3), lambda: (raw('=>[]', 'Vec<_>', '.collect::<Vec<_>>()'), Vec(T))))
    c.append((w('fold', 2.5), lambda: (Act('^@', 'method', 'fold', [value_operand(ctx, TOK), gate_cb(ctx, 'af2', args=[TOK, T])]), TOK)))
    if T[0] == 'Pair':
        A, B = T[1], T[2]
        c.append((w('unzip', 2.5), lambda: (raw('<->', '%s, %s, Vec<%s>, Vec<%s>' % (rs(A), rs(B), rs(A), rs(B)),
                                                  '.unzip::<%s, %s, Vec<%s>, Vec<%s>>()' % (rs(A), rs(B), rs(A), rs(B))), Pair(Vec(A), Vec(B)))))
    if T[0] == 'Res' and is_val(T[1]):
        U = T[1]
        c.append((w('try_fold', 3), lambda: (Act('?^@', 'method', 'try_fold', [value_operand(ctx, TOK), gate_cb(ctx, 'atf2', failable=True, args=[TOK, U])]), Res(TOK))))
        c.append((w('and_then', 3), lambda: (Act('=>', 'method', 'and_then', [gate_cb(ctx, 'aat', failable=True, args=[U])]), S)))
        c.append((w('map_err', 2), lambda: (Act('!>', 'method', 'map_err', [cb(ctx, 'me', [ETOK], ETOK)]), S)))
    wrapw = ctx.p.get('wrappers', 0.5) if depth < ctx.p.get('wrap_depth', 2) else 0.0
    if wrapw > 0:
        c.append((w('map_wrap', 1.5) * wrapw, lambda: wrap_val(ctx, T, '|>', 'map', 'val', lambda u: Str(u), depth, False)))
    return [x for x in c if x[0] > 0]


def stream_operand(ctx, T):
    e = ctx.ev('Init', T[0] in ('Opt', 'Res'))
    expr = 'w::sinit::<%s>(%d)' % (rs(T), e)
    if ctx.p.get('captures', 0.15) > 0 and not ctx.in_capture and ctx.no_caps == 0 and ctx.chance(ctx.p.get('captures', 0.15)):
        return Operand(expr, cap=new_cap(ctx))
    return Operand(expr)


def end_stream(ctx, acts, S):
    """a step must end in a future: consume the stream"""
    acts = list(acts)
    close_tail(acts)
    T = S[1]
    if ctx.chance(0.5):
        acts.append(raw('=>[]', 'Vec<_>', '.collect::<Vec<_>>()'))
        return acts, Vec(T)
    acts.append(Act('^@', 'method', 'fold', [value_operand(ctx, TOK), gate_cb(ctx, 'af2', args=[TOK, T])]))
    return acts, TOK


PINNING = ('and_then', 'or_else', 'map_err')


def gen_async_acts(ctx, X, n, depth, tail, pinned=True):
    """pinned=False: the receiver is a re-wrapped `Ok(v)` of a try macro whose error type is still an
    inference variable; wrappers whose inner chain may discard that error type are not generated until
    an action has pinned it"""
    acts = []
    for i in range(n):
        last = (i == n - 1)
        cands = stream_cands(ctx, X, depth, tail and last) if X[0] == 'Str' else async_cands(ctx, X, depth, tail and last)
        if not pinned:
            cands = [x for x in cands if len(x) < 3 or x[2] != 'discards_err']
        if not cands:
            break
        a, nx = ctx.pick_w(cands)()
        for aa in (a if isinstance(a, list) else [a]):
            if aa.method in PINNING or any('::<' in o.expr or ': Result<' in o.expr for o in aa.operands):
                pinned = True
        if isinstance(a, list):
            acts.extend(a)
        else:
            acts.append(a)
            if a.inner is not None and not a.close:
                X = nx
                break
        X = nx
        if size_of(X) > 6:
            break
    if X[0] == 'Str':
        acts, X = end_stream(ctx, acts, X)
    return acts, X


# ------------------------------------------------------------------------------------------
# branches, invocations
# ------------------------------------------------------------------------------------------
def start_type(ctx, inv):
    """type of a branch's initial value"""
    r = ctx.rng
    if inv.is_try:
        base = Opt if inv.flavor == 'opt' else Res
        inner = ctx.pick_w([(6, TOK), (1.5, Vec(TOK)), (1, Opt(TOK)), (0.7, Pair(TOK, TOK)), (0.5, Vec(Opt(TOK))), (0.4, Vec(Vec(TOK)))])
        if inv.flavor == 'res' and inner == Opt(TOK) and r.random() < 0.5:
            inner = Res(TOK)
        return base(inner)
    if ctx.chance(ctx.p.get('copystart', 0.03)):
        # a Copy-valued branch: what a step hands to the next one can then be captured by reference where a move was meant
        return ctx.pick_w([(2, USIZE), (1, Opt(USIZE))])
    return ctx.pick_w([
        (3, Opt(TOK)), (3, Res(TOK)), (3, Vec(TOK)), (1, TOK), (1, Opt(Opt(TOK))), (1, Vec(Opt(TOK))), (1, Vec(Res(TOK))),
        (1, Vec(Vec(TOK))), (1, Vec(Pair(TOK, TOK))), (0.7, Opt(Pair(TOK, TOK))), (0.7, Opt(Vec(TOK))), (0.5, Res(Vec(TOK))),
        (0.5, Pair(TOK, TOK)),
    ])


def step_goal(inv):
    if not inv.is_try:
        return None
    return 'Opt' if inv.flavor == 'opt' else 'Res'


def gen_branch(ctx, inv, index, depth, acts_per_step, same_type=None):
    ctx.cur_inv = inv.inv
    ctx.cur_branch = index
    ctx.cur_step = 0
    p = ctx.p
    name = None
    mutable = False
    if ctx.chance(p.get('names', 0.3)):
        name = 'n%d_%d' % (inv.inv, index)
        mutable = ctx.chance(p.get('mut', 0.3))
    t0 = same_type if same_type is not None else start_type(ctx, inv)
    steps = []
    types = []
    if inv.is_async:
        mark_evs = len(ctx.evs)
        init, X, pre = async_initial(ctx, inv, t0)
        if inv.inv == 0 and not inv.joiner:
            # the initial value and the synchronous prefix are evaluated while the branch's chain is built
            for e in ctx.evs[mark_evs:]:
                if e.inv == inv.inv and e.branch == index:
                    e.eager = True
        cur = X
        for k in range(depth):
            ctx.cur_step = k
            ctx.no_caps = 1 if k in p.get('no_cap_steps', ()) else 0
            n = acts_per_step() if (k > 0 or not pre) else max(0, acts_per_step() - 1)
            if k > 0:
                n = max(1, n)
            acts, cur = gen_async_acts(ctx, cur, n, 0, True, pinned=(k == 0 or not inv.is_try))
            if k == 0:
                acts = pre + acts
            elif not acts:
                acts = [Act('|>', 'method', 'map', [cb(ctx, 'am', [cur], cur)])]
            acts, cur = async_step_end(ctx, inv, acts, cur, same_type)
            if k > 0:
                acts[0].deferred = True
            steps.append(acts)
            types.append(cur)
        ctx.no_caps = 0
        return Branch(name, mutable, init, steps, types, index)
    init = None
    if same_type is None and ctx.nest_budget > 0 and ctx.chance(ctx.p.get('nest', 0.0)):
        ks = nested_kinds_for(ctx, False, 'init')
        # the nested macro may be the TAIL expression of a block capture: `{ w::cap(e); join! { .. } }` (evaluated by the caller,
        # before the step, like every block)
        in_block = (not ctx.in_capture and ctx.no_caps == 0 and ctx.multi_call == 0 and ctx.chance(ctx.p.get('nest_init_block', 0.3)))
        if in_block:
            ctx.cur_branch = CALLER
        got = gen_nested(ctx, ks) if ks else None
        if got is not None:
            ninv, nkind, nty = got
            ctx.cur_inv, ctx.cur_branch, ctx.cur_step = inv.inv, index, 0
            init = Operand(macro_expr(ninv, nkind), ref_expr=ninv)
            if in_block:
                saved_nc = ctx.p.get('nest_cap', 0.0)
                ctx.p = dict(ctx.p, nest_cap=0.0)
                init.cap = new_cap(ctx)
                ctx.p = dict(ctx.p, nest_cap=saved_nc)
            t0 = nty
        ctx.cur_inv, ctx.cur_branch, ctx.cur_step = inv.inv, index, 0
    if init is None:
        init = initial_operand(ctx, inv, t0)
    cur = t0
    for k in range(depth):
        ctx.cur_step = k
        ctx.no_caps = 1 if k in p.get('no_cap_steps', ()) else 0
        n = acts_per_step()
        if k > 0:
            n = max(1, n)
        acts, cur = gen_acts(ctx, cur, n, 0, True)
        if k > 0 and not acts:
            acts = [Act('??', 'inspect', operands=[cb(ctx, 'ins', [cur], UNIT, byref=True)])] if is_val(cur) else [raw('..', 'into_iter()')] if cur[0] == 'Vec' else []
            if not acts:
                raise Retry()
        last = (k == depth - 1)
        goal = step_goal(inv)
        if same_type is not None and inv.notranspose:
            # every step must END in Result<Tok, ETok>; the next step starts from the unwrapped Tok
            if cur == TOK:
                close_tail(acts)
                acts = list(acts) + [Act('->', 'then', operands=[cb(ctx, 'at_r', [TOK], Res(TOK), failable=True)])]
                cur = Res(TOK)
            if cur != Res(TOK):
                raise Retry()
            if k > 0:
                if not acts:
                    raise Retry()
                acts[0].deferred = True
            steps.append(acts)
            types.append(cur)
            cur = TOK
            continue
        if same_type is not None:
            acts, cur = coerce_exact_sync(ctx, acts, cur, same_type)
        else:
            if last and has_iter(cur):
                close_tail(acts)
                acts, cur = close_iters(ctx, acts, cur)
            if goal is not None:
                acts, cur = coerce(ctx, acts, cur, goal) if not has_iter(cur) else coerce_iter_goal(ctx, acts, cur, goal)
            if not is_sendable(cur):
                raise Retry()
        if k > 0:
            if not acts:
                raise Retry()
            acts[0].deferred = True
        steps.append(acts)
        types.append(cur)
    ctx.no_caps = 0
    return Branch(name, mutable, init, steps, types, index)


def is_sendable(t):
    return True


def coerce_iter_goal(ctx, acts, t, goal):
    """non-final step of a try macro whose value still contains an iterator: wrap it"""
    acts = list(acts)
    if t[0] == 'Iter':
        close_tail(acts)
        acts.append(Act('->', 'then', operands=[Operand('Some' if goal == 'Opt' else 'w::ok')]))
        return acts, (goal, t)
    if t[0] == goal:
        return acts, t
    raise Retry()


def coerce_exact_sync(ctx, acts, t, want):
    """C04 programs: every branch keeps the same type at every step end"""
    acts = list(acts)
    if t == want:
        return acts, t
    raise Retry()


SYNC_KINDS = ['join', 'join_spawn', 'spawn', 'try_join', 'try_join_spawn', 'try_spawn']
ASYNC_KINDS = ['join_async', 'join_async_spawn', 'async_spawn', 'try_join_async', 'try_join_async_spawn', 'try_async_spawn']


def tuple_to_ty(t):
    """result type of a nested invocation as a workload type (pairs only)"""
    if t[0] == 'Tuple':
        if len(t[1]) != 2:
            raise Retry()
        return Pair(t[1][0], t[1][1])
    if t[0] in ('Opt', 'Res') and isinstance(t[1], tuple) and t[1] and t[1][0] == 'Tuple':
        return (t[0], tuple_to_ty(t[1]))
    return t


def gen_nested(ctx, kinds):
    """generate a nested invocation of one of `kinds`; returns (inv, kind name, result type)"""
    if ctx.nest_budget <= 0:
        return None
    kind = ctx.rng.choice(kinds)
    ctx.nest_budget -= 1
    saved_p = ctx.p
    saved_flags = (ctx.in_capture, ctx.multi_call, ctx.no_caps)
    p = dict(ctx.p)
    p['branches'] = (1, 2)
    p['depth'] = (1, 2)
    p.pop('depth_profile', None)
    p['acts'] = (0, 2)
    p['handler'] = 0.3
    p['names'] = 0.2
    p['same_typed'] = False
    ctx.p = p
    ctx.in_capture, ctx.multi_call, ctx.no_caps = False, 0, 0
    try:
        inv = gen_invocation(ctx, kind, kind.startswith('try_'), 'async' in kind)
        ty = tuple_to_ty(inv.result_ty)
        if not is_val(ty):
            raise Retry()
    finally:
        ctx.p = saved_p
        ctx.in_capture, ctx.multi_call, ctx.no_caps = saved_flags
    return inv, kind, ty


def nested_kinds_for(ctx, outer_async, position):
    """macro kinds that may be nested at `position` ('init' | 'cap' | 'handler') of an outer sync/async macro"""
    allowed = ctx.p.get('nest_kinds')
    if not outer_async and ctx.async_depth > 0:
        # a synchronous macro nested somewhere inside an async one: no thread spawning in there
        ks = ['join', 'try_join']
    elif outer_async:
        ks = ASYNC_KINDS + ['join', 'try_join'] if position == 'init' else ['join', 'try_join']
    else:
        ks = SYNC_KINDS
    if allowed:
        ks = [k for k in ks if k in allowed]
    return ks


def initial_operand(ctx, inv, t0):
    e = ctx.ev('Init', t0[0] in ('Opt', 'Res'))
    expr = 'w::init::<%s>(%d)' % (rs(t0), e)
    if ctx.chance(ctx.p.get('initfn', 0.04)):
        # a zero-argument call whose callee is itself a call (the whole expression, callee included, is the branch's value)
        return Operand(('w::init_fn::<%s>(%d)()' if ctx.chance(0.6) else '(w::init_fn::<%s>(%d))()') % (rs(t0), e))
    if ctx.p.get('captures', 0.15) > 0 and ctx.chance(ctx.p.get('captures', 0.15)):
        return Operand(expr, cap=(silent_cap(ctx) if ctx.chance(0.35) else new_cap(ctx)))
    return Operand(expr)


def async_initial(ctx, inv, t0):
    """returns (initial operand, output type X of the future after the prefix, prefix acts)"""
    if ctx.nest_budget > 0 and ctx.chance(ctx.p.get('nest', 0.0)):
        ks = nested_kinds_for(ctx, True, 'init')
        got = gen_nested(ctx, ks) if ks else None
        if got is not None:
            ninv, nkind, nty = got
            ctx.cur_inv, ctx.cur_step = inv.inv, 0
            op = Operand(macro_expr(ninv, nkind), ref_expr=ninv)
            if 'async' in nkind:
                if inv.is_try and nty[0] != 'Res':
                    return op, Res(nty), [Act('|>', 'method', 'map', [Operand('w::ok')])]
                return op, nty, []
            # a synchronous nested macro: lift its value
            if inv.is_try and nty[0] != 'Res':
                return op, Res(nty), [Act('->', 'then', operands=[gate_cb(ctx, 'lift_r', failable=True)])]
            return op, nty, [Act('->', 'then', operands=[gate_cb(ctx, 'lift')])]
    if ctx.chance(ctx.p.get('sync_prefix', 0.35)):
        # synchronous prefix lifted into a future
        init = initial_operand(ctx, inv, t0)
        n = ctx.rng.choice([0, 1, 2])
        acts, cur = gen_acts(ctx, t0, n, 0, False)
        close_tail(acts)
        if has_iter(cur):
            acts, cur = close_iters(ctx, acts, cur)
        if inv.is_try and cur[0] != 'Res':
            acts.append(Act('->', 'then', operands=[gate_cb(ctx, 'lift_r', failable=True)]))
            cur = Res(cur)
        else:
            acts.append(Act('->', 'then', operands=[gate_cb(ctx, 'lift')]))
        return init, cur, acts
    if ctx.chance(ctx.p.get('streams', 0.0)):
        T = ctx.pick_w([(4, TOK), (2, Res(TOK)), (1.5, Pair(TOK, TOK)), (1, Opt(TOK)), (0.7, Vec(TOK))])
        e = ctx.ev('Init', T[0] in ('Opt', 'Res'))
        expr = 'w::sinit::<%s>(%d)' % (rs(T), e)
        op = Operand(expr, cap=new_cap(ctx)) if (ctx.p.get('captures', 0.15) > 0 and ctx.chance(ctx.p.get('captures', 0.15))) else Operand(expr)
        return op, ('Str', T), []
    e = ctx.ev('Init', t0[0] in ('Opt', 'Res'))
    expr = 'w::ainit::<%s>(%d)' % (rs(t0), e)
    if ctx.p.get('captures', 0.15) > 0 and ctx.chance(ctx.p.get('captures', 0.15)):
        return Operand(expr, cap=new_cap(ctx)), t0, []
    return Operand(expr), t0, []


def async_step_end(ctx, inv, acts, X, same_type):
    acts = list(acts)
    if same_type is not None:
        if X != same_type:
            raise Retry()
        return acts, X
    if inv.is_try and X[0] != 'Res':
        close_tail(acts)
        acts.append(Act('|>', 'method', 'map', [Operand('w::ok')]))
        X = Res(X)
    return acts, X


def gen_handler(ctx, inv, n_branches):
    p = ctx.p
    if not ctx.chance(p.get('handler', 0.4)):
        return None
    ctx.cur_inv = inv.inv
    ctx.cur_branch = CALLER
    ctx.cur_step = STEP_HANDLER
    if inv.is_try:
        kind = ctx.rng.choice(['map', 'and_then'])
    else:
        kind = 'then'
    if inv.is_async:
        if kind == 'map':
            fn, failable = 'w::h', False
        elif kind == 'and_then':
            fn, failable = 'w::ah_r', True
        else:
            fn, failable = 'w::ah', False
    else:
        if kind == 'map' or kind == 'then':
            fn, failable = 'w::h', False
        else:
            fn, failable = ('w::h_o', True) if inv.flavor == 'opt' else ('w::h_r', True)
    e = ctx.next_ev
    ctx.next_ev += 1
    ctx.evs.append(EvMeta(e, 'Handler', failable, inv.inv, CALLER, STEP_HANDLER))
    pos = ctx.rng.randint(0, n_branches) if ctx.chance(p.get('handler_anywhere', 0.3)) else n_branches
    h = Handler(kind, e, pos, fn)
    if n_branches <= 5 and ctx.chance(p.get('handler_path', 0.25)):
        h.path_form = True
        return h
    if ctx.chance(p.get('handler_return', 0.2)):
        h.early_return = True
    if ctx.chance(p.get('handler_block', 0.3)):
        # the handler expression itself is user code: evaluated exactly once, before step 0, also when a step fails
        de = ctx.next_ev
        ctx.next_ev += 1
        ctx.evs.append(EvMeta(de, 'Call', False, inv.inv, CALLER, 0))
        h.def_ev = de
    if ctx.nest_budget > 0 and ctx.chance(p.get('nest_handler', 0.0)):
        ks = nested_kinds_for(ctx, inv.is_async, 'handler')
        saved = (ctx.cur_inv, ctx.cur_branch, ctx.cur_step)
        try:
            got = gen_nested(ctx, ks) if ks else None
        except Retry:
            got = None
        ctx.cur_inv, ctx.cur_branch, ctx.cur_step = saved
        if got is not None:
            ninv, nkind, nty = got
            h.pre = 'let _n = %s; ' % macro_expr(ninv, nkind)
            h.pre_ref = ninv
    return h


def result_type(inv):
    """type of the value the invocation evaluates to (for sync kinds) / its future resolves to"""
    finals = [b.types[-1] for b in inv.branches]
    if inv.handler is not None:
        h = inv.handler
        if h.kind == 'then':
            return TOK
        if h.kind == 'map':
            return Opt(TOK) if inv.flavor == 'opt' else Res(TOK)
        return Opt(TOK) if inv.flavor == 'opt' else Res(TOK)
    if inv.is_try:
        un = [t[1] for t in finals]
        tup = un[0] if len(un) == 1 else ('Tuple', tuple(un))
        return (('Opt', tup) if inv.flavor == 'opt' else ('Res', tup))
    return finals[0] if len(finals) == 1 else ('Tuple', tuple(finals))


def gen_invocation(ctx, kind, is_try, is_async, profile_override=None, same_typed=False):
    inv = Inv(ctx.next_inv, kind, is_try, is_async, '')
    ctx.next_inv += 1
    ctx.invs.append(inv)
    p = ctx.p
    if is_try:
        inv.flavor = 'res' if is_async else ctx.rng.choice(['opt', 'res'])
    if p.get('notranspose') and kind is None:
        inv.flavor = 'res'
        inv.notranspose = True
    lo, hi = p.get('branches', (1, 4))
    nb = ctx.rng.randint(lo, hi)
    dlo, dhi = p.get('depth', (1, 3))
    depths = p['depth_profile'](ctx.rng, nb) if 'depth_profile' in p else [ctx.rng.randint(dlo, dhi) for _ in range(nb)]
    nb = len(depths)
    alo, ahi = p.get('acts', (0, 3))

    def acts_per_step():
        return ctx.rng.randint(alo, ahi)

    same = None
    if same_typed:
        same = (Opt(TOK) if inv.flavor == 'opt' else Res(TOK)) if is_try else ctx.rng.choice([Opt(TOK), Res(TOK), TOK])
        if inv.notranspose:
            same = Res(TOK)
        if is_async and is_try:
            same = Res(TOK)
    saved = (ctx.cur_inv, ctx.cur_branch, ctx.cur_step, ctx.is_async)
    ctx.is_async = is_async
    if is_async:
        ctx.async_depth += 1
    try:
        _gen_invocation_body(ctx, inv, nb, depths, acts_per_step, same)
    finally:
        if is_async:
            ctx.async_depth -= 1
    ctx.cur_inv, ctx.cur_branch, ctx.cur_step, ctx.is_async = saved
    assign_snapshots(ctx, inv)
    inv.result_ty = result_type(inv)
    return inv


USIZE_T = ('Usize',)


def gen_copy_branch(ctx, inv, depth):
    """branch 0 `let nI_0 = w::init::<usize>(e) ~-> w::m(e) ..`: a named branch whose value is Copy, so that ordinary (non-block)
    operands of OTHER branches may read the name (they see the previous step's result, like block captures do)"""
    ctx.cur_inv, ctx.cur_branch, ctx.cur_step = inv.inv, 0, 0
    t = Opt(USIZE) if inv.is_try else USIZE
    e = ctx.ev('Init', inv.is_try)
    init = Operand('w::init::<%s>(%d)' % (rs(t), e))
    steps, types = [], []
    for k in range(depth):
        ctx.cur_step = k
        acts = []
        if k > 0 or ctx.chance(0.5):
            e = ctx.ev('Call', False)
            acts.append(Act('|>', 'method', 'map', [Operand('w::inc(%d)' % e)]) if inv.is_try else Act('->', 'then', operands=[Operand('w::inc(%d)' % e)]))
        if k > 0:
            acts[0].deferred = True
        steps.append(acts)
        types.append(t)
    # half of them `let mut`: a capture of another branch may then mutate the (Copy) value through the name (`w::snap_m`), also
    # after this branch has finished — the macro's result must show the mutation, not a copy taken when the branch finished
    return Branch('n%d_0' % inv.inv, ctx.chance(ctx.p.get('copymut', 0.5)), init, steps, types, 0)


def add_name_reads(ctx, inv):
    """append `-> w::seen(e, <name of branch 0>)` to steps >= 1 of the other branches"""
    nm = inv.branches[0].name
    n = 0
    for b in inv.branches[1:]:
        for k in range(1, len(b.steps)):
            if not is_val(b.types[k]) or not ctx.chance(0.6):
                continue
            ctx.cur_inv, ctx.cur_branch, ctx.cur_step = inv.inv, b.index, k
            e = ctx.ev('Call', False)
            close_tail(b.steps[k])
            b.steps[k].append(Act('->', 'then', operands=[Operand('w::seen(%d, %s)' % (e, nm), ref_expr='w::seen(%d, seen%d)' % (e, e))]))
            inv.ref_step_pre.setdefault(k, []).append('let seen%d = %s;' % (e, nm))
            n += 1
    return n


def _gen_invocation_body(ctx, inv, nb, depths, acts_per_step, same):
    start = 0
    copy_named = (inv.inv == 0 and not inv.is_async and nb >= 2 and not inv.notranspose and same is None and (not inv.is_try or inv.flavor == 'opt')
                  and max(depths) >= 2 and ctx.chance(ctx.p.get('nameread', 0.04)))
    if copy_named:
        inv.branches.append(gen_copy_branch(ctx, inv, depths[0]))
        start = 1
    for i in range(start, nb):
        for attempt in range(40):
            mark_ev, mark_evs, mark_caps, mark_inv = ctx.next_ev, len(ctx.evs), len(ctx.caps), len(ctx.invs)
            mark_next_inv = ctx.next_inv
            mark_kw = len(ctx.kwvars)
            mark_envmut = ctx.envmut
            try:
                b = gen_branch(ctx, inv, i, depths[i], acts_per_step, same)
                inv.branches.append(b)
                break
            except Retry:
                ctx.next_ev = mark_ev
                del ctx.evs[mark_evs:]
                del ctx.caps[mark_caps:]
                del ctx.invs[mark_inv:]
                ctx.next_inv = mark_next_inv
                del ctx.kwvars[mark_kw:]
                ctx.envmut = mark_envmut
                ctx.multi_call = 0
                ctx.no_caps = 0
                ctx.is_async = inv.is_async
        else:
            raise RuntimeError('could not generate branch')
    if copy_named:
        add_name_reads(ctx, inv)
    inv.handler = gen_handler(ctx, inv, nb)


def assign_snapshots(ctx, inv):
    """upgrade some captures of steps >= 1 to snapshots of a named branch's latest value"""
    named = [b for b in inv.branches if b.name is not None]
    if not named:
        return
    for (cap, cinv, cbranch, cstep) in ctx.caps:
        if cinv != inv.inv or cstep == 0 or cstep == STEP_HANDLER or cap.snap is not None:
            continue
        if not ctx.chance(ctx.p.get('snapshots', 0.6)):
            continue
        cands = []
        for b in named:
            k = min(cstep - 1, len(b.types) - 1)
            ty = b.types[k]
            if inv.is_async and inv.is_try:
                pass
            if is_val(ty):
                cands.append(b)
        if cands:
            b = ctx.rng.choice(cands)
            cap.snap = b.name
            cap.snap_mut = b.mutable and ctx.chance(ctx.p.get('snap_mut', 0.6))
            for e in ctx.evs:
                if e.ev == cap.ev:
                    e.snap = True


# ------------------------------------------------------------------------------------------
# emission
# ------------------------------------------------------------------------------------------
KINDS = {
    # family -> [(kind name, Kind enum variant)]
    ('sync', False): [('join', 'Join'), ('join_spawn', 'JoinSpawn'), ('spawn', 'Spawn')],
    ('sync', True): [('try_join', 'TryJoin'), ('try_join_spawn', 'TryJoinSpawn'), ('try_spawn', 'TrySpawn')],
    ('async', False): [('join_async', 'JoinAsync'), ('join_async_spawn', 'JoinAsyncSpawn'), ('async_spawn', 'AsyncSpawn')],
    ('async', True): [('try_join_async', 'TryJoinAsync'), ('try_join_async_spawn', 'TryJoinAsyncSpawn'), ('try_async_spawn', 'TryAsyncSpawn')],
}
KIND_VARIANT = {n: v for fam in KINDS.values() for n, v in fam}


def var_of(inv, b):
    return b.name if b.name else 'r%d_%d' % (inv.inv, b.index)


def branch_macro(inv, b):
    s = ''
    if b.name:
        s += 'let %s%s = ' % ('mut ' if b.mutable else '', b.name)
    s += b.init.macro_src()
    for acts in b.steps:
        m = macro_acts(acts)
        if m:
            s += ' ' + m
    return s


PATH_HANDLER = {'w::h': 'hf', 'w::h_o': 'hfo', 'w::h_r': 'hfr', 'w::ah': 'ahf', 'w::ah_r': 'ahfr'}


def path_handler(h, n):
    return 'w::%s%d::<%d, %s>' % (PATH_HANDLER[h.body_fn], n, h.ev, ', '.join('_' for _ in range(n)))


def handler_macro(inv, h):
    n = len(inv.branches)
    params = ', '.join('a%d' % i for i in range(n))
    args = ', '.join('w::dg(&a%d)' % i for i in range(n))
    if h.path_form:
        return '%s => %s' % (h.kind, path_handler(h, n))
    clos = '|%s| { %s%s(%d, &[%s]) }' % (params, h.pre, h.body_fn, h.ev, args)
    if h.early_return:
        clos = '|%s| { %sreturn %s(%d, &[%s]); }' % (params, h.pre, h.body_fn, h.ev, args)
    if h.def_ev is not None:
        return '%s => { w::cap(%d); %s }' % (h.kind, h.def_ev, clos)
    return '%s => %s' % (h.kind, clos)


def macro_body(inv):
    parts = [branch_macro(inv, b) for b in inv.branches]
    if inv.handler is not None:
        parts.insert(inv.handler.position, handler_macro(inv, inv.handler))
    return (inv.options + ' ' if inv.options else '') + ', '.join(parts)


def macro_expr(inv, kind_name):
    return '%s! { %s }' % (kind_name, macro_body(inv))


def ref_expr(inv, top=False):
    """reference model of one invocation as an expression (sync: value; async: future)"""
    L = []
    ig = 'ig%d' % inv.inv
    L.append('let %s = w::inv_enter(%d);' % (ig, inv.inv))
    if inv.handler is not None and inv.handler.def_ev is not None:
        L.append('w::seg(&%s, %d, 0, || w::cap(%d));' % (ig, CALLER, inv.handler.def_ev))
    maxd = max(len(b.steps) for b in inv.branches)
    A = inv.is_async
    for k in range(maxd):
        active = [b for b in inv.branches if len(b.steps) > k]
        # captures: branch-then-position order, evaluated on the caller before the step
        for b in active:
            ops = []
            if k == 0 and b.init.cap is not None:
                ops.append(b.init)
            ops.extend(caps_of(b.steps[k]))
            for o in ops:
                L.append('let c%d = w::seg(&%s, %d, %d, || %s);' % (o.cap.ev, ig, CALLER, k, o.ref_block()))
        # ordinary operands that read a Copy-valued name see it as it is when the step's branch expressions start: after the
        # step's block captures (which may have mutated it through `&mut name`), before any branch expression of the step
        for stmt in inv.ref_step_pre.get(k, []):
            L.append(stmt)
        joiner = inv.joiner
        if joiner is not None and len(active) > 1:
            L.append('w::seg(&%s, %d, %d, || w::joiner(%d, %d));' % (ig, CALLER, k, joiner['ev'], len(active)))
        for b in active:
            v = var_of(inv, b)
            if A:
                recv = b.init.ref_src() if k == 0 else '%s::future::ready(%s)' % (_FUT[0], v)
                chain = ref_apply(recv, b.steps[k], is_async=True)
                L.append('let mut %s = w::aseg(&%s, %d, %d, async { (%s).await }).await;' % (v, ig, b.index, k, chain))
            else:
                recv = b.init.ref_src() if k == 0 else v
                chain = ref_apply(recv, b.steps[k])
                L.append('let mut %s = w::seg(&%s, %d, %d, || %s);' % (v, ig, b.index, k, chain))
        jmode = joiner['mode'] if (joiner is not None and len(active) > 1) else None
        if jmode in ('eager', 'lazy', 'lazy_fn', 'async', 'async_lazy', 'async_transpose'):
            # the joiner stamps every value it hands back (wrapped values included)
            for b in active:
                v = var_of(inv, b)
                L.append('let mut %s = w::js(%d, %s);' % (v, joiner['ev'], v))
        if inv.is_try:
            flags = ', '.join('w::is_fail(&%s)' % var_of(inv, b) for b in active)
            L.append('let __nf = [%s].iter().filter(|x| **x).count() as u32;' % flags)
            L.append('if __nf > 0 {')
            L.append('    w::note_fail(&%s, %d, __nf);' % (ig, k))
            if top and A:
                alts = ', '.join('if w::is_fail(&%s) { Some(w::rd_fail(&%s)) } else { None }' % (var_of(inv, b), var_of(inv, b)) for b in active)
                L.append('    w::note_alts([%s].into_iter().flatten().collect());' % alts)
            for b in active:
                v = var_of(inv, b)
                if inv.flavor == 'opt':
                    L.append('    if w::is_fail(&%s) { return None; }' % v)
                else:
                    L.append('    if w::is_fail(&%s) { return Err(%s.err().unwrap()); }' % (v, v))
            L.append('    unreachable!();')
            L.append('}')
        if inv.notranspose:
            # transpose_results(false): the step result is the joiner's already transposed Ok tuple; values go on unwrapped
            for b in active:
                v = var_of(inv, b)
                if jmode == 'try_notranspose':
                    L.append('let mut %s = w::js(%d, %s.ok().unwrap());' % (v, joiner['ev'], v))
                else:
                    L.append('let mut %s = %s.ok().unwrap();' % (v, v))
        elif jmode in ('try_notranspose', 'async_try'):
            # these joiners hand back the transposed Ok tuple, stamped
            for b in active:
                v = var_of(inv, b)
                L.append('let mut %s = %s.map(|v| w::js(%d, v));' % (v, v, joiner['ev']))
    n = len(inv.branches)
    vs = [var_of(inv, b) for b in inv.branches]
    h = inv.handler
    if inv.is_try and inv.notranspose:
        un = vs
        wrap_ok = 'Ok'
    elif inv.is_try:
        un = ['%s.unwrap()' % v for v in vs] if inv.flavor == 'opt' else ['%s.ok().unwrap()' % v for v in vs]
        wrap_ok = 'Some' if inv.flavor == 'opt' else 'Ok'
    else:
        un = vs
    if h is None:
        tup = un[0] if n == 1 else '(%s)' % ', '.join(un)
        L.append('%s(%s)' % (wrap_ok, tup) if inv.is_try else tup)
    else:
        L.append('let (%s) = (%s);' % (', '.join('a%d' % i for i in range(n)) + (',' if n == 1 else ''), ', '.join(un) + (',' if n == 1 else '')))
        args = ', '.join('w::dg(&a%d)' % i for i in range(n))
        call = '%s(%d, &[%s])' % (h.body_fn, h.ev, args)
        if h.path_form:
            call = '%s(%s)' % (path_handler(h, n), ', '.join('a%d' % i for i in range(n)))
        hpre = h.pre_ref if isinstance(h.pre_ref, str) else 'let _n = %s; ' % ref_expr(h.pre_ref)
        body = '{ %s%s }' % (hpre, call)
        if A and h.body_fn in ('w::ah', 'w::ah_r') and h.path_form:
            hv = 'w::aseg(&%s, %d, %d, async { (%s).await }).await' % (ig, CALLER, STEP_HANDLER, body)
        elif A and h.body_fn in ('w::ah', 'w::ah_r'):
            hv = 'w::aseg(&%s, %d, %d, async { let __g = %s; drop((%s)); __g.await }).await' % (ig, CALLER, STEP_HANDLER, body, ', '.join('a%d' % i for i in range(n)) + (',' if n == 1 else ''))
        else:
            hv = 'w::seg(&%s, %d, %d, || %s)' % (ig, CALLER, STEP_HANDLER, body)
        if h.kind == 'map':
            L.append('%s(%s)' % (wrap_ok, hv))
        else:
            L.append(hv)
    body = '\n        '.join(L)
    if A:
        return 'async {\n        %s\n    }' % body
    return '(|| {\n        %s\n    })()' % body


def render_tuple(n, var):
    if n == 1:
        return 'w::rd(&%s)' % var
    names = ', '.join('t%d' % i for i in range(n))
    parts = ', '.join('w::rd(&t%d)' % i for i in range(n))
    return '{ let (%s) = %s; format!("({})", [%s].join(",")) }' % (names, var, parts)


def render_code(inv):
    n = len(inv.branches)
    if inv.handler is not None:
        return 'w::rd(&__res)'
    if not inv.is_try:
        return render_tuple(n, '__res')
    if inv.flavor == 'opt':
        return 'match __res { Some(v) => format!("Some({})", %s), None => "None".to_string() }' % render_tuple(n, 'v')
    return '{ let __res: Result<_, w::ETok> = __res; match __res { Ok(v) => format!("Ok({})", %s), Err(e) => format!("Err({})", w::rd(&e)) } }' % render_tuple(n, 'v')


def rust_str(s):
    return '"' + s.replace('\\', '\\\\').replace('"', '\\"').replace('\n', ' ') + '"'


@dataclass
class Program:
    pid: int
    slice: str
    top: Inv
    ctx: Ctx
    anchor: Optional[str] = None
    kinds: Optional[list] = None      # restrict macro kinds (names)
    extra_items: str = ''             # Rust items emitted before the run functions (joiner macros)
    fut: str = '::futures'            # futures crate path visible in the crate this program is compiled in

    def family(self):
        return ('async' if self.top.is_async else 'sync', self.top.is_try)

    def kind_list(self):
        ks = KINDS[self.family()]
        if self.kinds is not None:
            ks = [k for k in ks if k[0] in self.kinds]
        return ks

    def size(self):
        return sum(1 + sum(count_acts(s) for s in b.steps) for inv in self.ctx.invs for b in inv.branches)

    def text(self):
        return macro_body(self.top)

    def emit(self, stub_kinds=()):
        """Rust source of the program. stub_kinds: kinds whose macro form failed to compile."""
        P = self.pid
        out = []
        if self.extra_items:
            out.append(self.extra_items)
        A = self.top.is_async
        rc = render_code(self.top)
        pre = ''.join('let %s = %s; ' % kv for kv in self.ctx.kwvars)
        if self.ctx.envmut:
            pre += 'let mut __cnt = 0usize; '
            rc = 'format!("{}#cnt={}", %s, __cnt)' % rc
        runs = []
        for (kname, kvar) in self.kind_list():
            if kname in stub_kinds:
                continue
            out.append('// @run %d %s' % (P, kname))
            if A:
                out.append('pub fn run_%d_%s() -> ::std::pin::Pin<Box<dyn ::std::future::Future<Output = String>>> {\n    %slet __fut = %s;\n    Box::pin(async move { let __res = __fut.await; %s })\n}' % (P, kname, pre, macro_expr(self.top, kname), rc))
                runs.append('(Kind::%s, RunFn::Async(run_%d_%s))' % (kvar, P, kname))
            else:
                if self.ctx.ctlflow:
                    out.append('pub fn run_%d_%s() -> String {\n    %slet mut __slot = None; for __i in 0..1 { __slot = Some(%s); } let __res = __slot.unwrap();\n    %s\n}' % (P, kname, pre, macro_expr(self.top, kname), rc))
                else:
                    out.append('pub fn run_%d_%s() -> String {\n    %slet __res = %s;\n    %s\n}' % (P, kname, pre, macro_expr(self.top, kname), rc))
                runs.append('(Kind::%s, RunFn::Sync(run_%d_%s))' % (kvar, P, kname))
        _wcount[0] = 0
        _FUT[0] = self.fut
        out.append('// @ref %d' % P)
        rexpr = ref_expr(self.top, top=True)
        if A:
            out.append('pub fn ref_%d() -> ::std::pin::Pin<Box<dyn ::std::future::Future<Output = String>>> {\n    %sBox::pin(async move { let __res = (%s).await; %s })\n}' % (P, pre, rexpr, rc))
            reff = 'RunFn::Async(ref_%d)' % P
        else:
            out.append('pub fn ref_%d() -> String {\n    %slet __res = %s;\n    %s\n}' % (P, pre, rexpr, rc))
            reff = 'RunFn::Sync(ref_%d)' % P
        invs = []
        for inv in self.ctx.invs:
            depths = ', '.join(str(len(b.steps)) for b in inv.branches)
            hk = {'map': 'Map', 'and_then': 'AndThen', 'then': 'Then'}[inv.handler.kind] if inv.handler else 'None'
            kind = 'None' if inv.kind is None else 'Some(Kind::%s)' % KIND_VARIANT[inv.kind]
            invs.append('InvMeta { inv: %d, kind: %s, branches: %d, depths: &[%s], handler: HandlerKind::%s, custom_joiner: %s }' % (
                inv.inv, kind, len(inv.branches), depths, hk, 'true' if inv.joiner else 'false'))
        evs = []
        for e in self.ctx.evs:
            evs.append('EvMeta { ev: %d, kind: EvKind::%s, failable: %s, inv: %d, branch: %d, step: %d, snap: %s, eager: %s }' % (
                e.ev, e.kind, 'true' if e.failable else 'false', e.inv, e.branch, e.step, 'true' if e.snap else 'false', 'true' if e.eager else 'false'))
        out.append('// @meta %d' % P)
        out.append('pub static P%d: Prog = Prog {\n    id: %d, slice: %s,\n    text: %s,\n    runs: &[%s],\n    reference: %s,\n    invs: &[%s],\n    evs: &[%s],\n    size: %d, anchor: %s,\n};' % (
            P, P, rust_str(self.slice), rust_str(self.text()), ', '.join(runs), reff, ',\n        '.join(invs), ',\n        '.join(evs), self.size(),
            'None' if self.anchor is None else 'Some(%s)' % rust_str(self.anchor)))
        return '\n'.join(out)


HEADER = '''// @generated by /verif/gen/simgen.py — do not edit
#![allow(warnings)]
#![recursion_limit = "1024"]
use join::*;
use simrt::w;
use simrt::prog::*;
use futures::{FutureExt, TryFutureExt, StreamExt, TryStreamExt};
'''


def emit_chunk(programs, stubs=None):
    stubs = stubs or {}
    fut = programs[0].fut if programs else '::futures'
    parts = [HEADER.replace('use futures::', 'use %s::' % fut.lstrip(':'))]
    for pr in programs:
        parts.append('// ---- program %d (%s)' % (pr.pid, pr.slice))
        parts.append(pr.emit(stub_kinds=stubs.get(pr.pid, ())))
    parts.append('pub static PROGS: &[&Prog] = &[%s];' % ', '.join('&P%d' % pr.pid for pr in programs))
    parts.append('fn main() { simrt::harness::main_entry(PROGS) }')
    return '\n\n'.join(parts) + '\n'


# ------------------------------------------------------------------------------------------
# slices
# ------------------------------------------------------------------------------------------
import hashlib


def subseed(*parts):
    return int(hashlib.sha256(':'.join(str(p) for p in parts).encode()).hexdigest()[:16], 16)


FAMILIES = [('sync', False), ('sync', True), ('async', False), ('async', True)]

OP_NAMES = ['map', 'and_then', 'filter', 'dot', 'then', 'or', 'or_else', 'map_err', 'collect', 'chain', 'find_map', 'filter_map',
            'enumerate', 'partition', 'flatten', 'fold', 'try_fold', 'find', 'zip', 'unzip', 'inspect']
WRAP_NAMES = ['map_wrap', 'and_then_wrap', 'filter_wrap', 'inspect_wrap', 'filter_map_wrap', 'find_wrap', 'find_map_wrap',
              'partition_wrap', 'or_else_wrap', 'map_err_wrap']

PROFILES = {
    'ops': dict(branches=(1, 2), depth=(1, 2), acts=(2, 6), wrappers=0.25, wrap_depth=1, captures=0.1, names=0.0, handler=0.1,
                closures=0.3, turbofish=0.15, sync_prefix=0.5, streams=0.3, opnoise=0.06),
    'wrap': dict(branches=(1, 2), depth=(1, 2), acts=(1, 4), wrappers=3.0, wrap_depth=3, captures=0.2, names=0.0, handler=0.1,
                 closures=0.15, turbofish=0.05, sync_prefix=0.6, streams=0.15),
    'steps': dict(branches=(2, 5), depth=(1, 4), acts=(0, 2), wrappers=0.3, wrap_depth=1, captures=0.3, names=0.45, handler=0.3,
                  closures=0.1, turbofish=0.05, sync_prefix=0.3, snapshots=0.7, streams=0.15),
    'try': dict(branches=(2, 4), depth=(1, 4), acts=(1, 3), wrappers=0.3, wrap_depth=1, captures=0.15, names=0.2, handler=0.4,
                closures=0.1, turbofish=0.0, sync_prefix=0.3,
                ops={'and_then': 3, 'or_else': 2, 'or': 1.5, 'try_fold': 2, 'then': 0.5, 'inspect': 0.5}),
    'handler': dict(branches=(1, 5), depth=(1, 2), acts=(0, 2), wrappers=0.2, wrap_depth=1, captures=0.1, names=0.2, handler=1.0,
                    handler_anywhere=0.5, closures=0.1, turbofish=0.0, sync_prefix=0.3),
    'nest': dict(branches=(1, 3), depth=(1, 3), acts=(0, 2), wrappers=0.15, wrap_depth=1, captures=0.3, names=0.25, handler=0.5,
                 closures=0.05, turbofish=0.0, sync_prefix=0.3, nest=0.5, nest_cap=0.35, nest_handler=0.4, nest_depth=3, nest_closure=0.12),
    'pos': dict(branches=(1, 5), depth=(1, 4), acts=(0, 1), wrappers=0.0, captures=0.1, names=0.3, handler=0.35, closures=0.0,
                turbofish=0.0, sync_prefix=0.0, same_typed=True,
                ops={'map': 3, 'then': 1, 'inspect': 1, 'and_then': 2, 'or_else': 1, 'or': 1, 'map_err': 1, 'filter': 0, 'dot': 0, 'zip': 0,
                     'flatten': 0, 'unzip': 0}),
}


def gen_program(pid, slice_name, profile, family, seed, same_typed=False, kinds=None):
    for attempt in range(50):
        rng = random.Random(subseed(seed, attempt))
        ctx = Ctx(rng, profile)
        try:
            top = gen_invocation(ctx, None, family[1], family[0] == 'async', same_typed=same_typed or profile.get('same_typed', False))
        except (Retry, RuntimeError):
            continue
        if ctx.envmut:
            # a closure borrowing caller-side state cannot be sent to a thread: the plain macro only
            kinds = ['try_join' if family[1] else 'join']
        return Program(pid, slice_name, top, ctx, kinds=kinds)
    raise RuntimeError('cannot generate program %s/%d' % (slice_name, pid))


SPECIAL_SLICES = ('grid', 'opts', 'optsf')

FUTURES = '::futures'

JOINER_BODIES = {
    'eager': 'w::jst({ev}, ($($x),*))',
    'lazy': 'w::jst({ev}, ($(($x)()),*))',
    'try_notranspose': 'w::tr({ev}, ($($x),*))',
    'handles': '($($x),*)',
    'async': 'w::jst({ev}, {fut}::join!($($x),*))',
    'async_lazy': 'w::jst({ev}, {fut}::join!($(($x)()),*))',
    'async_try': '{fut}::try_join!($($x),*).map(|t| w::jst({ev}, t))',
    'async_transpose': 'w::jst({ev}, {fut}::join!($($x),*))',
    # joiners that do not look at what they join (any output type of the branch futures is accepted): what they are handed is
    # then only constrained by what the expansion does with the joiner's output
    'async_opaque': '{fut}::join!($($x),*)',
    'async_try_opaque': '{fut}::try_join!($($x),*)',
}


def joiner_macro(name, ev, mode, fut):
    if mode == 'lazy_fn':
        # a joiner with FUNCTION-call semantics: what it is handed (the tuple of closures) is evaluated BEFORE the joiner starts,
        # so anything of a branch that runs while the arguments are built is seen in front of the joiner event
        return ('macro_rules! %s { ($($x:expr),*) => {{ let __t = ($($x,)*); w::joiner(%d, 0usize $(+ { let _ = stringify!($x); 1usize })*); '
                'w::jst(%d, w::CallAll::call_all(__t)) }}; }' % (name, ev, ev))
    body = JOINER_BODIES[mode].format(ev=ev, fut=fut)
    return ('macro_rules! %s { ($($x:expr),*) => {{ w::joiner(%d, 0usize $(+ { let _ = stringify!($x); 1usize })*); %s }}; }'
            % (name, ev, body))


OPT_VARIANTS = {
    # family -> [(variant, kinds or None)]
    ('sync', False): [('eager', ['join']), ('lazy', ['join']), ('lazy_fn', ['join']), ('handles', ['join_spawn', 'spawn']), ('noop', None)],
    ('sync', True): [('eager', ['try_join']), ('lazy', ['try_join']), ('lazy_fn', ['try_join']), ('try_notranspose', ['try_join']), ('handles', ['try_join_spawn', 'try_spawn']), ('noop', None)],
    ('async', False): [('async', None), ('async_lazy', ['join_async']), ('fcp', None), ('async_opaque', None)],
    ('async', True): [('async_try', None), ('async_transpose', None), ('fcp', None), ('async_try_opaque', None)],
}


def gen_opts(pid, family, variant, kinds, seed, fut='::futures', over=None):
    for attempt in range(60):
        rng = random.Random(subseed(seed, attempt))
        prof = dict(PROFILES['pos'])
        prof.update(branches=(2, 5), handler=0.3, names=0.15, captures=0.15)
        if over:
            prof.update(over)
        if variant == 'lazy_fn':
            prof['initfn'] = 0.6
        if variant == 'try_notranspose':
            # equal depths only: a branch that finished earlier would be handed to the final transposer unwrapped
            prof['depth_profile'] = lambda r, nb: [r.choice([1, 1, 2, 3])] * nb
            prof['notranspose'] = True
            prof['names'] = 0.0
            prof['ops'] = dict(prof.get('ops', {}), then=2.0)
        elif not (over and 'depth_profile' in over):
            prof['depth_profile'] = lambda r, nb: [r.randint(1, 3) for _ in range(nb)]
        ctx = Ctx(rng, prof)
        try:
            top = gen_invocation(ctx, None, family[1], family[0] == 'async', same_typed=True)
        except (Retry, RuntimeError):
            continue
        if variant == 'try_notranspose' and top.flavor != 'res':
            continue
        opts = []
        extra = ''
        if variant not in ('noop', 'fcp'):
            # the joiner event belongs to the invocation, evaluated by the caller
            e = ctx.next_ev
            ctx.next_ev += 1
            ctx.evs.append(EvMeta(e, 'Joiner', False, 0, CALLER, 0))
            name = 'jn_%d' % pid
            extra = joiner_macro(name, e, variant, fut)
            top.joiner = dict(ev=e, mode=variant)
            opts.append('custom_joiner(%s!)' % name)
        if variant in ('lazy', 'lazy_fn', 'async_lazy'):
            opts.append('lazy_branches(true)')
        if variant == 'try_notranspose':
            opts.append('transpose_results(false)')
        if variant == 'async_transpose':
            opts.append('transpose_results(true)')
        # options that do not change the default behaviour, to vary subsets and orders
        noops = []
        if family[0] == 'async':
            noops.append('futures_crate_path(%s)' % fut)
            if variant not in ('async_lazy',):
                noops.append('lazy_branches(false)')
            if variant not in ('async_transpose',):
                noops.append('transpose_results(false)')
        else:
            spawnish = kinds is not None and any('spawn' in k for k in kinds)
            if variant not in ('lazy', 'lazy_fn') and not spawnish and kinds is not None:
                noops.append('lazy_branches(false)')
            if spawnish:
                noops.append('lazy_branches(true)')
            if variant != 'try_notranspose':
                noops.append('transpose_results(true)' if family[1] else rng.choice(['transpose_results(true)', 'transpose_results(false)']))
        if variant == 'fcp':
            opts.append('futures_crate_path(%s)' % fut)
            noops = [n for n in noops if not n.startswith('futures_crate_path')]
        if variant == 'noop' and kinds is None:
            # must hold for all three kinds of the family: only options that are no-ops for each of them
            noops = [n for n in noops if n.startswith('transpose_results')]
        for n in noops:
            if rng.random() < 0.5 or (variant == 'noop' and not opts):
                opts.append(n)
        rng.shuffle(opts)
        top.options = ' '.join(opts)
        pr = Program(pid, 'opts' if fut == '::futures' else 'optsf', top, ctx, kinds=kinds)
        pr.extra_items = extra
        pr.fut = fut
        return pr
    raise RuntimeError('cannot generate opts program')


def gen_grid(pid, family, b, a, seed, steps=2):
    """b branches x a actions per step, a block capture on every action, in `steps` consecutive steps.
    Every capture feeds a distinct callback, so any clash of generated binding names changes a value."""
    rng = random.Random(seed)
    ctx = Ctx(rng, dict(captures=0.0, closures=0.0, turbofish=0.0))
    is_async, is_try = family[0] == 'async', family[1]
    inv = Inv(0, None, is_try, is_async, '')
    ctx.invs.append(inv)
    ctx.next_inv = 1
    ctx.is_async = is_async
    if is_try:
        inv.flavor = 'res' if is_async else rng.choice(['opt', 'res'])
    t = Res(TOK) if (inv.flavor == 'res' or (is_async and not is_try and rng.random() < 0.5)) else Opt(TOK)
    for i in range(b):
        ctx.cur_inv, ctx.cur_branch, ctx.cur_step = 0, i, 0
        e = ctx.ev('Init', True)
        init = Operand('w::%s::<%s>(%d)' % ('ainit' if is_async else 'init', rs(t), e))
        if rng.random() < 0.5:
            init.cap = new_cap(ctx)
        st = []
        for k in range(steps):
            ctx.cur_step = k
            acts = []
            for j in range(a):
                e = ctx.ev('Call', False)
                op = Operand('w::%s(%d)' % ('am' if is_async else 'm', e), cap=new_cap(ctx))
                acts.append(Act('|>', 'method', 'map', [op]))
            if k > 0:
                acts[0].deferred = True
            st.append(acts)
        name = 'n0_%d' % i if rng.random() < 0.2 else None
        inv.branches.append(Branch(name, False, init, st, [t] * steps, i))
    inv.handler = None
    if rng.random() < 0.5:
        ctx.p = dict(ctx.p, handler=1.0, handler_anywhere=0.5)
        inv.handler = gen_handler(ctx, inv, b)
    inv.result_ty = result_type(inv)
    return Program(pid, 'grid', inv, ctx)


def split_top(text):
    """split a macro body at its top-level commas (outside () [] {})"""
    out, depth, cur = [], 0, []
    for ch in text:
        if ch in '([{':
            depth += 1
        elif ch in ')]}':
            depth -= 1
        if ch == ',' and depth == 0:
            out.append(''.join(cur))
            cur = []
        else:
            cur.append(ch)
    out.append(''.join(cur))
    return out


def envmut_in_wrapper_after_capture(text):
    """some branch has, within one step, a block capture, then an open `>>>` wrapper containing the `__cnt += 1` closure"""
    for br in split_top(text):
        for step in br.split('~'):
            j = step.find('__cnt += 1')
            if j < 0:
                continue
            seg = step[:j]
            k = seg.rfind('>>>')
            if k >= 0 and k > seg.rfind('<<<') and ('{ w::cap(' in seg[:k] or '{ w::snap' in seg[:k]):
                return True
    return False


def slice_programs(slice_name, tier, master_seed, base_id):
    """the programs of one slice: a systematic coverage skeleton followed by seeded random programs"""
    progs = []
    if slice_name == 'grid':
        # (branches, actions per step, steps): two-digit indices in every dimension
        shapes = ([(13, 12, 2), (3, 24, 2), (24, 2, 2), (3, 1, 12), (2, 2, 10)] if tier == 'quick'
                  else [(25, 25, 2), (13, 13, 2), (2, 30, 2), (30, 2, 2), (12, 24, 2), (24, 12, 2), (3, 1, 25), (2, 3, 17), (11, 2, 11), (1, 1, 33)])
        i = 0
        for (b, a, st) in shapes:
            for fam in FAMILIES:
                progs.append(gen_grid(base_id + i, fam, b, a, subseed(master_seed, 'grid', b, a, fam) if st == 2 else subseed(master_seed, 'grid', b, a, st, fam), steps=st))
                i += 1
        return progs
    if slice_name == 'optsf':
        # compiled in a crate where the futures crate is only reachable as `fut03`: every futures item of the
        # expansion that does not come from futures_crate_path(..) fails to compile there
        reps = 3 if tier == 'quick' else 16
        i = 0
        for fam in [('async', False), ('async', True)]:
            for (variant, kinds) in [('fcp', None)] + [v for v in OPT_VARIANTS[fam] if v[0] not in ('fcp', 'async_lazy')]:
                for r in range(reps):
                    pr = gen_opts(base_id + i, fam, variant, kinds, subseed(master_seed, 'optsf', fam, variant, r), fut='::fut03')
                    if 'futures_crate_path' not in pr.top.options:
                        pr.top.options = ('futures_crate_path(::fut03) ' + pr.top.options).strip()
                    progs.append(pr)
                    i += 1
            # long chains (eight to twelve actions in one step) and many steps, every futures item still from the given path
            for r, over in enumerate([dict(acts=(8, 12), depth_profile=(lambda rr, nb: [1] * nb)), dict(acts=(8, 12), depth_profile=(lambda rr, nb: [2] * nb)),
                                      dict(acts=(1, 2), depth_profile=(lambda rr, nb: [rr.randint(5, 9) for _ in range(nb)]))]):
                pr = gen_opts(base_id + i, fam, 'fcp', None, subseed(master_seed, 'optsf-long', fam, r), fut='::fut03', over=over)
                if 'futures_crate_path' not in pr.top.options:
                    pr.top.options = ('futures_crate_path(::fut03) ' + pr.top.options).strip()
                progs.append(pr)
                i += 1
        return progs
    if slice_name == 'opts':
        reps = 3 if tier == 'quick' else 24
        i = 0
        for fam in FAMILIES:
            for (variant, kinds) in OPT_VARIANTS[fam]:
                for r in range(reps):
                    pr = gen_opts(base_id + i, fam, variant, kinds, subseed(master_seed, 'opts', fam, variant, r))
                    if variant == 'lazy_fn' and r == 0:
                        # skeleton: a branch whose whole share of a joined step is the zero-argument call `w::init_fn(e)()`
                        import re as _re5
                        pat = _re5.compile(r'(^|, |\) )(let (mut )?\w+ = )?\(?w::init_fn::<[^()]*>\(\d+\)\)?\(\)( ~|,|$)')
                        att = 0
                        while not any(pat.search(b) for b in [pr.text()]) and att < 300:
                            att += 1
                            pr = gen_opts(base_id + i, fam, variant, kinds, subseed(master_seed, 'opts', fam, variant, r, 'sk', att))
                        if not pat.search(pr.text()):
                            sys.stderr.write('SKELETON-UNMET slice=opts tag=sk-lazyfn-bare family=%s\n' % (fam,))
                    progs.append(pr)
                    i += 1
        return progs
    prof = dict(PROFILES[slice_name])
    n_random = {'quick': 48, 'thorough': 300}[tier]
    i = 0

    def add(profile, family, tag, require=None, **kw):
        """require: substring the macro body must contain (systematic skeleton entries); the generator is re-seeded until it does"""
        nonlocal i
        pid = base_id + i
        pr = None
        met = False
        for attempt in range(400 if require else 1):
            pr = gen_program(pid, slice_name, profile, family, subseed(master_seed, slice_name, tag, i, attempt), **kw)
            if require is None or (require(pr.text()) if callable(require) else require in pr.text()):
                met = True
                break
        if not met:
            sys.stderr.write('SKELETON-UNMET slice=%s tag=%s family=%s\n' % (slice_name, tag, family))
        progs.append(pr)
        i += 1

    fams = FAMILIES if slice_name != 'try' else [('sync', True), ('async', True)]
    if slice_name == 'ops':
        # skeleton: every operator emphasised once per family
        for fam in fams:
            for op in OP_NAMES:
                p = dict(prof)
                p['ops'] = {o: (8.0 if o == op else 0.6) for o in OP_NAMES}
                p['wrappers'] = 0.1
                add(p, fam, 'sk-' + op)
    if slice_name in ('ops', 'steps'):
        # skeleton: a block capture on (nearly) every operand of every operand-taking operator, each operator emphasised once
        for fam in fams:
            for op in ['map', 'and_then', 'filter', 'then', 'or', 'or_else', 'map_err', 'chain', 'find_map', 'filter_map', 'partition',
                       'fold', 'try_fold', 'find', 'zip', 'inspect']:
                p = dict(prof)
                p['ops'] = {o: (8.0 if o == op else 0.5) for o in OP_NAMES}
                p['captures'] = 0.9
                p['closures'] = 0.0
                p['turbofish'] = 0.0
                p['wrappers'] = 0.05
                p['acts'] = (2, 5) if slice_name == 'ops' else (1, 3)
                if slice_name == 'steps':
                    p['depth_profile'] = (lambda rng, nb: [rng.randint(1, 3) for _ in range(nb)])
                    p['branches'] = (2, 3)
                pat = {'map': '|> {', 'and_then': '=> {', 'filter': '?> {', 'then': '-> {', 'or': '<| {', 'or_else': '<= {', 'map_err': '!> {',
                       'chain': '>@> {', 'find_map': '?|>@ {', 'filter_map': '?|> {', 'partition': '?&!> {', 'fold': '^@ {', 'try_fold': '?^@ {',
                       'find': '?@ {', 'zip': '>^> {', 'inspect': '?? {'}[op]
                add(p, fam, 'sk-cap-' + op, require=pat)
                if op in ('fold', 'try_fold'):
                    # second operand of fold / try_fold captured as well
                    add(p, fam, 'sk-cap2-' + op, require='}, {')
                    # ... and ONLY the second operand captured (the plain first operand must stay where it is written)
                    import re as _re
                    p2 = dict(p)
                    p2['captures'] = 0.5
                    add(p2, fam, 'sk-cap2only-' + op, require=(lambda text: _re.search(r'\^@ w::init::<w::Tok>\(\d+\), \{', text) is not None))
    if slice_name == 'ops':
        # skeleton: every operator look-alike once after a complete operand prefix, outside and inside a wrapper
        for fam in [('sync', False), ('sync', True)]:
            for op in SH_OPS:
                for inside in (False, True):
                    p = dict(prof)
                    p['opnoise'] = 0.6
                    p['opnoise_op'] = op
                    p['captures'] = 0.0
                    p['closures'] = 0.0
                    p['turbofish'] = 0.0
                    p['wrappers'] = 1.5 if inside else 0.0
                    pat = ') %s 0' % op

                    def req(text, pat=pat, inside=inside):
                        if not inside:
                            return pat in text
                        j = text.find('>>>')
                        while j >= 0:
                            rest = text[j + 3:]
                            end = rest.find('<<<')
                            seg = rest if end < 0 else rest[:end]
                            if pat in seg:
                                return True
                            j = text.find('>>>', j + 1)
                        return False
                    add(p, fam, 'sk-noise-%s-%s' % (op, inside), require=req)
    if slice_name == 'ops':
        # skeleton: every exotic operand form once per family (sync families also inside a wrapper)
        for fam in fams:
            for fi, form in enumerate(EXOTIC_FORMS):
                for inside in ((False, True) if fam[0] == 'sync' else (False,)):
                    p = dict(prof)
                    p['exotic'] = 0.7
                    p['exotic_form'] = fi
                    p['captures'] = 0.0
                    p['closures'] = 0.0
                    p['turbofish'] = 0.0
                    p['mk'] = 0.0
                    p['wrappers'] = 1.5 if inside else 0.0
                    head = form.split('EXPR')[0]

                    def reqx(text, head=head, inside=inside):
                        if not inside:
                            return head in text
                        j = text.find('>>>')
                        while j >= 0:
                            rest = text[j + 3:]
                            end = rest.find('<<<')
                            seg = rest if end < 0 else rest[:end]
                            if head in seg:
                                return True
                            j = text.find('>>>', j + 1)
                        return False
                    add(p, fam, 'sk-exotic-%d-%s' % (fi, inside), require=reqx)
    if slice_name == 'ops':
        # the evaluation of a non-block operand EXPRESSION is observed (`w::mk`), each operand-taking operator emphasised once
        for fam in fams:
            for op, pat in [('map', '|> w::mk('), ('and_then', '=> w::mk('), ('filter', '?> w::mk('), ('then', '-> w::mk('), ('or_else', '<= w::mk('),
                            ('map_err', '!> w::mk('), ('filter_map', '?|> w::mk('), ('find_map', '?|>@ w::mk('), ('inspect', '?? w::mk('), ('fold', ', w::mk(')]:
                p = dict(prof)
                p['ops'] = {o: (8.0 if o == op else 0.5) for o in OP_NAMES}
                p['mk'] = 0.8
                p['captures'] = 0.0
                p['closures'] = 0.0
                p['turbofish'] = 0.0
                p['wrappers'] = 0.1
                if fam[0] == 'async':
                    p['streams'] = max(p.get('streams', 0.0), 0.6)
                add(p, fam, 'sk-mk-' + op, require=pat)
                if op in ('filter', 'map', 'filter_map', 'inspect'):
                    # ... on a receiver with SEVERAL items (iterator / stream): an operand expression moved into the per-item
                    # closure is then evaluated once per item
                    import re as _re6
                    rx = _re6.compile(r'(into_iter\(\)|sinit::<[^(]*>\(\d+\)) %s' % _re6.escape(pat))
                    add(p, fam, 'sk-mk-multi-' + op, require=(lambda text, rx=rx: rx.search(text) is not None))
    if slice_name == 'ops':
        # an operand that is a plain identifier spelled like a handler keyword, directly followed by `=>` / `=>[]`
        import re as _re4
        for fam in fams:
            for kw in ('map', 'then', 'and_then'):
                p = dict(prof)
                p['ops'] = {o: (6.0 if o in ('map', 'and_then', 'collect', 'then') else 0.5) for o in OP_NAMES}
                p['kwvars'] = 0.6
                p['captures'] = 0.0
                p['closures'] = 0.0
                p['turbofish'] = 0.0
                p['wrappers'] = 0.0
                add(p, fam, 'sk-kwvar-%s' % kw, require=(lambda text, kw=kw: _re4.search(r'[>|@] %s ~?=>' % kw, text) is not None))
    if slice_name == 'wrap':
        for fam in fams:
            for op in WRAP_NAMES:
                p = dict(prof)
                p['ops'] = {o: (10.0 if o == op else 0.5) for o in WRAP_NAMES}
                add(p, fam, 'sk-' + op)
        # a block capture INSIDE each wrapper operator (where the wrapper closure is not stored in a lazy adaptor / required 'static)
        optok = {'map_wrap': '|> >>>', 'and_then_wrap': '=> >>>', 'filter_wrap': '?> >>>', 'inspect_wrap': '?? >>>', 'find_wrap': '?@ >>>',
                 'find_map_wrap': '?|>@ >>>', 'partition_wrap': '?&!> >>>', 'or_else_wrap': '<= >>>', 'map_err_wrap': '!> >>>'}
        for fam in [f for f in fams if f[0] == 'sync']:
            for op, tok in optok.items():
                p = dict(prof)
                p['ops'] = {o: (10.0 if o == op else 0.5) for o in WRAP_NAMES}
                p['captures'] = 0.9
                p['closures'] = 0.0
                p['turbofish'] = 0.0

                def req(text, tok=tok):
                    j = text.find(tok)
                    while j >= 0:
                        rest = text[j + len(tok):]
                        end = rest.find('<<<')
                        seg = rest if end < 0 else rest[:end]
                        if '{ w::cap(' in seg or '{ w::snap' in seg:
                            return True
                        j = text.find(tok, j + 1)
                    return False
                add(p, fam, 'sk-capin-' + op, require=req)
    if slice_name == 'wrap':
        # a closure INSIDE a wrapper mutates a caller-side Copy local by reference (plain join! / try_join! only), with a block
        # capture earlier in the same step of that branch; and the same without the capture
        for fam in [f for f in fams if f[0] == 'sync']:
            for rep in range(3):
                p = dict(prof)
                p['envmut'] = 0.8
                p['closures'] = 0.5
                p['captures'] = 0.5
                p['turbofish'] = 0.0
                add(p, fam, 'sk-envmut-cap-%d' % rep, require=envmut_in_wrapper_after_capture)
            p = dict(prof)
            p['envmut'] = 0.8
            p['closures'] = 0.5
            add(p, fam, 'sk-envmut', require='__cnt += 1')
    if slice_name in ('steps', 'try', 'handler'):
        profiles = [(1, 3), (3, 1), (2, 1, 3), (1, 2, 2), (3, 2, 1), (2, 2), (1, 1, 2), (4, 1), (1, 4, 2, 3)]
        for fam in fams:
            for dp in profiles:
                p = dict(prof)
                p['depth_profile'] = (lambda d: (lambda rng, nb: list(d)))(dp)
                add(p, fam, 'sk-%s' % (dp,))
    if slice_name in ('steps', 'try'):
        # a single multi-step branch without a handler: nothing to join or transpose, but every step is still a step
        # (the later step has a block capture, observable whatever the value it would be applied to)
        for fam in fams:
            for dp in [(2,), (3,), (4,)]:
                p = dict(prof)
                p['depth_profile'] = (lambda d: (lambda rng, nb: list(d)))(dp)
                p['branches'] = (1, 1)
                p['handler'] = 0.0
                p['captures'] = 0.7
                p['nest'] = 0.0

                def req1(text):
                    j = text.find('~')
                    return j >= 0 and ('{ w::cap(' in text[j:] or '{ w::snap' in text[j:])
                add(p, fam, 'sk-single-%s' % (dp,), require=req1)
    if slice_name == 'steps':
        # Copy-valued branches that go on into a joined later step (non-try families: the error type of the try families is not Copy)
        for fam in [f for f in fams if not f[1]]:
            for dp in [(2, 2), (3, 2, 3)]:
                p = dict(prof)
                p['depth_profile'] = (lambda d: (lambda rng, nb: list(d)))(dp)
                p['copystart'] = 1.0
                p['nest'] = 0.0
                p['nameread'] = 0.0
                add(p, fam, 'sk-copystart-%s' % (dp,), require='usize>')
    if slice_name == 'try':
        # in a LATER step: a success-preserving wrapper (`|> >>> .. <<<`) closed explicitly, then a failable `=>` on the outer value
        # (whether a branch can fail in a step must not be judged by what stands in front of the wrapper only)
        import re as _re7
        for fam in [f for f in fams if f[0] == 'sync']:
            for dp in [(2, 2), (3, 2), (2, 3, 2)]:
                p = dict(prof)
                p['depth_profile'] = (lambda d: (lambda rng, nb: list(d)))(dp)
                p['ops'] = {o: (4.0 if o in ('map', 'and_then') else 0.4) for o in OP_NAMES}
                p['wrappers'] = 2.0
                p['captures'] = 0.0
                p['nest'] = 0.0
                p['acts'] = (2, 4)

                def reqw(text):
                    for part in split_top(text):
                        steps_txt = part.split(' ~')
                        for st_txt in steps_txt[1:]:
                            m = _re7.search(r'^(\|>|\?\?|<=|!>) >>> .* <<< => (?!>>>)', st_txt.strip())
                            if m and 'w::at_' in st_txt.strip()[m.end():m.end() + 40]:
                                return True
                    return False
                add(p, fam, 'sk-wrap-then-failable-%s' % (dp,), require=reqw)
    if slice_name in ('steps', 'try'):
        # a MIDDLE step that consists of one deferred recovery operator only (`~<= f`, `~<| x`, `~!> f`: on the Ok / Some value a
        # step of a try macro starts from, the callback cannot fire) and is followed by another step: it is still a step, with
        # its barrier and its abort check
        OPS_TXT = [' |> ', ' => ', ' -> ', ' <| ', ' <= ', ' !> ', ' ?> ', ' ?? ', ' .. ', ' >. ', ' ^^> ', '>>>', ' >@> ', ' ?|> ', ' |n> ']
        for fam in [f for f in fams if f[1]]:
            for (opname, optxt) in [('or_else', '~<= '), ('or', '~<| '), ('map_err', '~!> ')]:
                if fam[0] == 'async' and opname == 'or':
                    continue
                for dp in [(3, 2), (2, 3, 3), (3, 3)]:
                    # (3, 3): the operand written as a closure literal
                    want_closure = dp == (3, 3)
                    if want_closure and opname == 'or':
                        continue
                    p = dict(prof)
                    p['depth_profile'] = (lambda d: (lambda rng, nb: list(d)))(dp)
                    # (and_then next to it: the sibling branches need failable positions in the same steps)
                    p['ops'] = {o: (4.0 if o == opname else 4.0 if o == 'and_then' else 0.3) for o in OP_NAMES}
                    p['acts'] = (1, 1)
                    p['captures'] = 0.0
                    p['mk'] = 0.0
                    p['exotic'] = 0.0
                    p['wrappers'] = 0.0
                    p['nest'] = 0.0
                    p['closures'] = 3.0 if want_closure else 0.0
                    p['turbofish'] = 0.0
                    p['guard_noise'] = 0.0

                    def reqr(text, optxt=optxt, want_closure=want_closure):
                        for part in split_top(text):
                            k = part.find(optxt)
                            while k >= 0:
                                rest = part[k + len(optxt):]
                                j = rest.find(' ~')
                                if j > 0 and not any(o in rest[:j] for o in OPS_TXT) and '{' not in rest[:j].split('|')[0]:
                                    if not want_closure or rest.startswith('|') or rest.startswith('move |'):
                                        return True
                                k = part.find(optxt, k + 1)
                        return False
                    add(p, fam, 'sk-lonerecovery-%s-%s' % (opname, dp), require=reqr)
    if slice_name == 'steps':
        # an ORDINARY (non-block) operand of another branch reads the `let` name of a Copy-valued branch 0 (sync families)
        for fam in [f for f in fams if f[0] == 'sync']:
            for dp in [(2, 2), (3, 2, 3), (1, 3), (3, 3, 2, 2)]:
                p = dict(prof)
                p['depth_profile'] = (lambda d: (lambda rng, nb: list(d)))(dp)
                p['nameread'] = 1.0
                p['nest'] = 0.0
                add(p, fam, 'sk-nameread-%s' % (dp,), require='w::seen(')
            # ... and a `let mut` Copy-valued branch 0 that FINISHES EARLY and is mutated through its name by a capture of another
            # branch in a later step: the macro's result must show the mutation
            import re as _re6
            for dp in [(1, 3), (2, 3, 3), (1, 2, 3)]:
                p = dict(prof)
                p['depth_profile'] = (lambda d: (lambda rng, nb: list(d)))(dp)
                p['nameread'] = 1.0
                p['copymut'] = 1.0
                p['nest'] = 0.0
                p['captures'] = 0.7
                p['snapshots'] = 1.0
                p['snap_mut'] = 1.0

                def reqm(text, first=dp[0]):
                    m = _re6.search(r'let mut (n\d+_0) = w::init::<(Option<)?usize', text)
                    if not m:
                        return False
                    # the mutating capture must sit behind at least `first` step boundaries of its own branch
                    for part in split_top(text):
                        k = part.find('w::snap_m(')
                        while k >= 0:
                            if ('&mut %s)' % m.group(1)) in part[k:k + 40] and part[:k].count('~') >= first:
                                return True
                            k = part.find('w::snap_m(', k + 1)
                    return False
                add(p, fam, 'sk-copymut-%s' % (dp,), require=reqm)
    if slice_name == 'steps':
        # many steps (nine and more: two-digit step indices), alone and next to short branches
        for fam in fams:
            for dp in [(9,), (10, 2), (2, 11)]:
                p = dict(prof)
                p['depth_profile'] = (lambda d: (lambda rng, nb: list(d)))(dp)
                p['acts'] = (1, 2)
                p['nest'] = 0.0
                p['wrappers'] = 0.1
                add(p, fam, 'sk-deep-%s' % (dp,))
    if slice_name == 'steps':
        # a deferred step that STARTS with a `&mut self` member access on the previous step's value (an iterator carried
        # across the step boundary: non-try macros only)
        import re as _re2
        for fam in [f for f in fams if not f[1] and f[0] == 'sync']:
            p = dict(prof)
            p['ops'] = {o: (6.0 if o == 'dot' else 0.6) for o in OP_NAMES}
            p['depth_profile'] = (lambda rng, nb: [rng.randint(2, 3) for _ in range(nb)])
            p['branches'] = (1, 2)
            p['wrappers'] = 0.0
            p['nest'] = 0.0
            add(p, fam, 'sk-mutself-step', require=(lambda text: _re2.search(r'~\s*(>\.|\.\.)\s*nth\(1\)', text) is not None))
    if slice_name == 'steps':
        # a `let mut` branch that finishes early is MUTATED (snapshot through `&mut name`) by a capture two or more steps
        # later, with a capture-free step in between
        import re as _re3
        for fam in fams:
            for dp in [(1, 4), (1, 3, 4), (2, 4, 1)]:
                p = dict(prof)
                p['depth_profile'] = (lambda d: (lambda rng, nb: list(d)))(dp)
                p['names'] = 1.0
                p['mut'] = 1.0
                p['snap_mut'] = 1.0
                p['snapshots'] = 1.0
                p['captures'] = 0.7
                p['nest'] = 0.0
                p['wrappers'] = 0.05
                short = min(dp)
                p['no_cap_steps'] = (short,)
                bi = list(dp).index(short)
                add(p, fam, 'sk-mutname-%s' % (dp,), require=(lambda text, bi=bi: _re3.search(r'snap_m\(\d+, &mut n\d+_%d\)' % bi, text) is not None))
    if slice_name == 'steps':
        # named branches (`let` / `let mut`) on equal-depth and on ragged profiles, with and without a handler
        for fam in fams:
            for dp in [(1, 1), (2, 2), (3, 3, 3), (2, 2, 2), (1, 2), (3, 1, 2)]:
                for hp in (0.0, 1.0):
                    p = dict(prof)
                    p['depth_profile'] = (lambda d: (lambda rng, nb: list(d)))(dp)
                    p['names'] = 1.0
                    p['mut'] = 0.6
                    p['handler'] = hp
                    add(p, fam, 'sk-names-%s-%s' % (dp, hp))
    if slice_name == 'nest':
        # skeleton: every macro kind nested once as an initial value, in a capture and in a handler
        for k in SYNC_KINDS + ASYNC_KINDS:
            for posn in ('init', 'cap', 'handler'):
                for fam in fams:
                    outer_async = fam[0] == 'async'
                    if 'async' in k and (not outer_async or posn != 'init'):
                        continue
                    if outer_async and 'async' not in k and k not in ('join', 'try_join'):
                        continue
                    if k.startswith('try_') != fam[1]:
                        continue   # keep the skeleton small: same try-ness as the outer macro
                    p = dict(prof)
                    p['nest_kinds'] = [k]
                    p['nest'] = 1.0 if posn == 'init' else 0.0
                    p['nest_cap'] = 1.0 if posn == 'cap' else 0.0
                    p['nest_handler'] = 1.0 if posn == 'handler' else 0.0
                    p['handler'] = 1.0 if posn == 'handler' else prof['handler']
                    p['captures'] = 0.6 if posn == 'cap' else prof['captures']
                    p['nest_depth'] = 2
                    add(p, fam, 'sk-%s-%s' % (k, posn))
                    if posn == 'init' and not outer_async:
                        # ... and as the tail expression of a block capture
                        import re as _re5
                        p2 = dict(p)
                        p2['nest_init_block'] = 1.0
                        add(p2, fam, 'sk-%s-initblock' % k, require=(lambda text, k=k: _re5.search(r'\{ w::cap\(\d+\); %s! \{' % k, text) is not None))
    if slice_name == 'pos':
        import itertools
        maxn, maxd = (3, 3) if tier == 'quick' else (5, 4)
        allp = []
        for n in range(1, maxn + 1):
            for dp in itertools.product(range(1, maxd + 1), repeat=n):
                allp.append(dp)
        rng = random.Random(subseed(master_seed, 'pos-fam'))
        for idx, dp in enumerate(allp):
            p = dict(prof)
            p['depth_profile'] = (lambda d: (lambda rng, nb: list(d)))(dp)
            # every profile in two families (rotating), all profiles covered in every family over the corpus in thorough
            fl = fams if tier == 'thorough' else [fams[idx % 4], fams[(idx + 1 + idx // 4) % 4]]
            for fam in fl:
                add(p, fam, 'sk-%s' % (dp,))
        n_random = 24 if tier == 'quick' else 120
        prof['branches'] = (2, 6)
    for j in range(n_random):
        fam = fams[j % len(fams)]
        add(prof, fam, 'rnd')
    return progs
