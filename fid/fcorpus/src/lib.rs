// generated programs live in src/bin
