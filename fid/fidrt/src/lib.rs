//! Stub-fidelity cross-check (non-deciding): the generated programs are compiled against the
//! UNWRAPPED /repo/join, real std threads and a real tokio runtime, run fault-free with gates
//! in auto-release mode, and compared with the reference model and with a simulated run.
use serde_json::json;
use simrt::core::{lock, Mode, Ph, Plan};
use simrt::prog::{Kind, Prog, RunFn};
use simrt::run::{run_reference, Outcome};
use std::panic::{catch_unwind, AssertUnwindSafe};

fn passed(log: &[simrt::core::Rec]) -> Vec<(u32, u32, u64)> {
    let mut v: Vec<(u32, u32, u64)> = log.iter().filter(|r| r.ph == Ph::Pass).map(|r| (r.ev, r.occ, r.dg)).collect();
    v.sort_unstable();
    v
}

pub fn main_entry(progs: &[&'static Prog]) {
    std::panic::set_hook(Box::new(|_| {}));
    let mut runs = 0u64;
    let mut mismatches = 0u64;
    let mut names_checked = 0u64;
    let mut by_kind = std::collections::BTreeMap::new();
    for prog in progs {
        for (ki, &(kind, f)) in prog.runs.iter().enumerate() {
            for pi in 0..3u64 {
                let plan = simrt::harness::fidelity_plan(prog, ki, pi);
                let refrun = run_reference(prog, &plan);
                lock().reset(Mode::Free, plan.clone());
                let outcome = match f {
                    RunFn::Sync(f) => {
                        let h = std::thread::Builder::new().name("main".into()).spawn(move || catch_unwind(AssertUnwindSafe(f))).unwrap();
                        match h.join().unwrap() {
                            Ok(s) => Outcome::Value(s),
                            Err(p) => Outcome::Panic(simrt::exec::panic_msg(&p)),
                        }
                    }
                    RunFn::Async(mk) => {
                        let multi = (prog.id + ki as u32) % 2 == 1;
                        let rt = if multi {
                            tokio::runtime::Builder::new_multi_thread().worker_threads(2).build().unwrap()
                        } else {
                            tokio::runtime::Builder::new_current_thread().build().unwrap()
                        };
                        let r = catch_unwind(AssertUnwindSafe(|| rt.block_on(async move { mk().await })));
                        drop(rt);
                        match r {
                            Ok(s) => Outcome::Value(s),
                            Err(p) => Outcome::Panic(simrt::exec::panic_msg(&p)),
                        }
                    }
                };
                let (log, names) = {
                    let mut g = lock();
                    g.mode = Mode::Idle;
                    (std::mem::take(&mut g.log), std::mem::take(&mut g.free_names))
                };
                runs += 1;
                *by_kind.entry(kind.name()).or_insert(0u64) += 1;
                let failed = !refrun.fail_notes.is_empty();
                let ok_value = match (&outcome, &refrun.outcome) {
                    (Outcome::Value(a), Outcome::Value(b)) => a == b || (kind.is_async() && kind.is_try() && refrun.alts.iter().any(|x| x == a)) || (failed && kind.is_async() && refrun.fail_notes.iter().any(|n| n.0 != 0 && n.3 > 1)),
                    _ => false,
                };
                let refp: Vec<(u32, u32, u64)> = {
                    let mut v: Vec<(u32, u32, u64)> = refrun.events.iter().map(|e| (e.ev, e.occ, e.dg)).collect();
                    v.sort_unstable();
                    v
                };
                let obsp = passed(&log);
                let ok_events = if failed && kind.is_async() { obsp.iter().all(|x| refp.contains(x)) } else { obsp == refp };
                // thread names: printed, compared by the driver with the simulated side (`names` command of the sim binaries)
                let ok_names = true;
                if kind.is_spawn() && !kind.is_async() {
                    let mut real: Vec<String> = names.iter().map(|n| n.clone().unwrap_or_default()).collect();
                    real.sort();
                    real.dedup();
                    names_checked += 1;
                    println!("{}", json!({"type": "names", "program": prog.id, "kind": kind.name(), "pi": pi, "names": real, "outcome": outcome.short()}));
                }
                if !ok_value || !ok_events {
                    println!(
                        "{}",
                        json!({"type": "fidelity_mismatch", "what": if !ok_value { "value" } else { "events" }, "program": prog.id, "kind": kind.name(),
                               "real": outcome.short(), "reference": refrun.outcome.short(), "real_events": obsp.len(), "reference_events": refp.len(), "text": prog.text})
                    );
                }
                if !ok_value || !ok_events || !ok_names {
                    mismatches += 1;
                }
            }
        }
    }
    println!("{}", json!({"type": "fidelity_stats", "runs": runs, "mismatches": mismatches, "thread_name_comparisons": names_checked, "by_kind": by_kind}));
    let _ = Kind::Join;
    std::process::exit(if mismatches > 0 { 3 } else { 0 });
}
